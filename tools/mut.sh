#!/bin/bash
# usage: tools/mut.sh <patch-or-sed-script.sh> <ID> [check args...]
# Applies a patch (or runs a shell script with cwd = scratch copy) to a scratch copy of /repo,
# runs the check against it and removes the copy. Exit status is the check's.
set -u
patch=$(readlink -f "$1"); shift
d=$(mktemp -d /tmp/verif-mut-XXXXXX)
rsync -a --exclude .git /repo/ "$d/"
cd "$d"
case "$patch" in
  *.sh) bash "$patch" || { echo "mutation script failed"; rm -rf "$d"; exit 3; } ;;
  *) patch -p1 -s < "$patch" || { echo "patch failed"; rm -rf "$d"; exit 3; } ;;
esac
(cd "$d" && GOFLAGS=-mod=mod GOPROXY=off GOSUMDB=off GOTOOLCHAIN=local go build ./... ) || { echo "mutant does not build"; rm -rf "$d"; exit 3; }
cd /verif
VERIF_REPO_DIR="$d" ./check "$@"
rc=$?
rm -rf "$d" "/verif/.build/mod-$(echo "$d" | sed 's/[^A-Za-z0-9]/_/g')"
exit $rc
