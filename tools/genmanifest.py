#!/usr/bin/env python3
"""Regenerates /verif/MANIFEST.json from checks.json (the single source of per-property configuration)."""
import json, os
ROOT = os.path.dirname(os.path.dirname(os.path.abspath(__file__)))
cfg = json.load(open(os.path.join(ROOT, "checks.json")))
props = [json.loads(l) for l in open(os.path.join(ROOT, "properties.jsonl"))]
hooks_commits = []
hc = os.path.join(ROOT, "hooks-commits.txt")
if os.path.exists(hc):
    hooks_commits = [l.split()[0] for l in open(hc) if l.strip() and not l.startswith("#")]
checks, na = [], []
for p in props:
    pid = p["id"]
    c = cfg.get(pid)
    if not c or c.get("disabled"):
        na.append({"property_id": pid, "reason": (c or {}).get("disabled", "check not built yet in this session; see DESIGN.md section 4 for the planned generated check")})
        continue
    checks.append({
        "property_id": pid,
        "quick_cmd": "./check %s --tier quick" % pid,
        "thorough_cmd": "./check %s --tier thorough" % pid,
        "evidence_file": "/verif/evidence/%s.json" % pid,
        "replay_cmd_template": "./check %s --replay {path}" % pid,
        "engine": "pbt-harness",
        "level_claimed": {"category": c["level"], "text": c["level_text"], "design_ref": "DESIGN.md section 4, " + pid},
        "level_note": c["level_note"],
        "technique": c["technique"],
    })
m = {
    "version": 1,
    "setup_cmd": "./check --setup",
    "hooks": {
        "guard": "verif",
        "enable": "go test -tags verif (the driver builds every property's test binary with -tags verif against /repo through a replace directive)",
        "baseline_off_cmd": "cd /repo && GOFLAGS=-mod=mod GOPROXY=off GOSUMDB=off GOTOOLCHAIN=local go test -json -vet=off -count=1 -timeout 25m ./...",
        "source_commits": hooks_commits,
        "add_only": True,
    },
    "engines": [{
        "name": "pbt-harness",
        "path": "/verif/harness",
        "serves_properties": [c["property_id"] for c in checks],
        "kind_free_text": "Go module of property-based tests (pgregory.net/rapid v1.3.0 generators + shrinking, native go test -fuzz in the thorough tier) with independent reference models under harness/internal/ref; driver /verif/check builds it against /repo's working tree, shards, merges evidence and applies known-findings.txt",
    }],
    "checks": checks,
    "not_applicable": na,
    "notes": "Every check is generated-input search against an explicit oracle (see DESIGN.md). Exit 2 from a check means infrastructure trouble or an inconclusive run (timeout), never a violation.",
}
json.dump(m, open(os.path.join(ROOT, "MANIFEST.json"), "w"), indent=1)
print("checks:", len(checks), "not_applicable:", len(na))
