#!/bin/bash
# usage: tools/runall.sh [quick|thorough] [seed]  — runs every registered check on the current /repo tree
tier=${1:-quick}; seed=${2:-1}
cd /verif
fail=0
for id in $(python3 -c "import json;print(' '.join(sorted(json.load(open('checks.json')))))"); do
  out=$(VERIF_SEED=$seed ./check $id --tier $tier 2>&1); rc=$?
  echo "$out" | grep -E "VIOLATION|KNOWN-FINDING|INFRA|seed=" | cut -c1-220
  [ $rc -ne 0 ] && { echo "!! $id exit $rc"; fail=1; }
done
python3-vt tools/validate.py || fail=1
exit $fail
