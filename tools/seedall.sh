#!/bin/bash
# Runs the quick check of each seeded change's property against a scratch copy of /repo with the
# change applied, and writes seeded/RESULTS.md. (tools/seedcheck.sh is the full confirmation protocol.)
cd /verif
out=seeded/RESULTS.md
echo "| seeded change | property | caught | first signature | note |" > $out
echo "|---|---|---|---|---|" >> $out
for d in seeded/*/; do
  name=$(basename $d)
  id=$(echo $name | cut -c1-3 | tr a-z A-Z)
  p=$d/patch.diff; [ -f $d/patch-rebased-on-hooks.diff ] && p=$d/patch-rebased-on-hooks.diff
  res=$(tools/mut.sh $p $id 2>&1)
  sig=$(echo "$res" | grep -m1 -o "sub=[^ ]* sig=[^ ]*")
  if echo "$res" | grep -q "^VIOLATION"; then caught=yes; else caught=NO; fi
  note=$(python3 -c "import json;print(json.load(open('$d/meta.json')).get('verif_note',''))" 2>/dev/null)
  echo "| $name | $id | $caught | $sig | $note |" >> $out
  echo "$name $caught $sig"
done
