#!/bin/bash
# Runs the quick check of each seeded change's property against a scratch copy of /repo with the
# change applied, and writes seeded/RESULTS.md. (tools/seedcheck.sh is the full confirmation protocol.)
# Properties are processed in parallel (VERIF_SEEDALL_JOBS, default 4); the seeds of one property run one
# after the other because they share that property's test binary.
# VERIF_SEEDALL_ARGS (e.g. "--seed 2") is passed to every check, VERIF_SEEDALL_OUT names another result file:
# the table in DESIGN.md is the run at seed 1, runs at other seeds show which detections depend on the case stream.
cd /verif
jobs=${VERIF_SEEDALL_JOBS:-4}
tmp=$(mktemp -d /tmp/verif-seedall-XXXXXX)
one_prop() {
  id=$1; tmp=$2
  lc=$(echo $id | tr A-Z a-z)
  for d in seeded/${lc}*/; do
    [ -d "$d" ] || continue
    name=$(basename $d)
    p=$d/patch.diff; [ -f $d/patch-rebased-on-hooks.diff ] && p=$d/patch-rebased-on-hooks.diff
    res=$(tools/mut.sh $p $id ${VERIF_SEEDALL_ARGS:-} 2>&1)
    sig=$(echo "$res" | grep -m1 -o "sub=[^ ]* sig=[^ ]*")
    if echo "$res" | grep -q "^VIOLATION"; then caught=yes; else caught=NO; fi
    note=$(python3 -c "import json;print(json.load(open('$d/meta.json')).get('verif_note',''))" 2>/dev/null)
    echo "| $name | $id | $caught | $sig | $note |" > $tmp/$name.row
    echo "$name $caught $sig"
  done
}
export -f one_prop
for i in $(seq -w 1 20); do echo C$i; done | xargs -P $jobs -I{} bash -c "one_prop {} $tmp"
out=${VERIF_SEEDALL_OUT:-seeded/RESULTS.md}
echo "| seeded change | property | caught | first signature | note |" > $out
echo "|---|---|---|---|---|" >> $out
for f in $(ls $tmp/*.row | sort); do cat $f >> $out; done
rm -rf $tmp
