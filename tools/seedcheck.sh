#!/bin/bash
# usage: tools/seedcheck.sh <seed worktree dir> <PROP ID> <name>
# 1. confirms the seeded change in the scratch worktree: patch applies, builds, existing tests keep
#    their baseline verdicts, the demonstration fails with the patch and passes without;
# 2. copies patch.diff, demo_test.go, meta.json to /verif/seeded/<name>/;
# 3. applies the patch to /repo, runs the property's quick check, and restores /repo.
set -u
export GOFLAGS=-mod=mod GOPROXY=off GOSUMDB=off GOTOOLCHAIN=local
W=$1; ID=$2; NAME=$3
S=$W/seed
[ -f $S/patch.diff ] && [ -f $S/demo_test.go ] && [ -f $S/meta.json ] || { echo "missing deliverables in $S"; exit 3; }
DEMODIR=$(python3 -c "import json;print(json.load(open('$S/meta.json'))['demo_dir'])")
cd $W || exit 3
git checkout -q -- . && git status --short | grep -v '^?? seed/' | head
baseline() { go test -vet=off -count=1 $(go list ./... | grep -v '/seed$') 2>&1 | grep -E '^(ok|FAIL|---)' | sed -E 's/\(?[0-9.]+s\)?$//' | sort; }
echo "-- baseline tests"; baseline > /tmp/seed-base-$$.txt
cp $S/demo_test.go $W/$DEMODIR/zz_seed_demo_test.go
echo "-- demo without patch (must pass)"
(cd $W/$DEMODIR && go test -vet=off -count=1 . 2>&1 | grep -E '^(--- FAIL|FAIL|ok)' | grep -v -E 'TestCertificateTransparency|TestVCS' | head -5)
(cd $W/$DEMODIR && go test -vet=off -count=1 . >/dev/null 2>&1); r0b=$?
git apply $S/patch.diff || { echo "patch does not apply"; rm -f $W/$DEMODIR/zz_seed_demo_test.go; exit 3; }
go build ./... || { echo "does not build"; git checkout -q -- .; rm -f $W/$DEMODIR/zz_seed_demo_test.go; exit 3; }
echo "-- demo with patch (must fail)"
(cd $W/$DEMODIR && go test -vet=off -count=1 . 2>&1 | grep -E '^(--- FAIL|FAIL|ok)' | head -5)
rm -f $W/$DEMODIR/zz_seed_demo_test.go
echo "-- existing tests with patch (must equal baseline)"
baseline > /tmp/seed-with-$$.txt
if diff /tmp/seed-base-$$.txt /tmp/seed-with-$$.txt; then echo "existing tests unchanged"; else echo "EXISTING TESTS CHANGED"; fi
git checkout -q -- .
rm -f /tmp/seed-base-$$.txt /tmp/seed-with-$$.txt
mkdir -p /verif/seeded/$NAME && cp $S/patch.diff $S/demo_test.go $S/meta.json /verif/seeded/$NAME/
echo "-- /verif check $ID against a scratch copy of /repo with the change applied"
# (equivalent to: git -C /repo apply <patch>; ./check $ID; git -C /repo checkout -- .  — a scratch copy is used so
# that long background runs against /repo are not disturbed)
cd /verif && tools/mut.sh /verif/seeded/$NAME/patch.diff $ID 2>&1 | grep -E "VIOLATION|sig=|KNOWN|INFRA|quick seed|patch failed|not build" | head -8
