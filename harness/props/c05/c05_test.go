// Package c05: a created module zip always extracts to exactly the files that belong in it.
package c05

import (
	"archive/zip"
	"bytes"
	"fmt"
	"os"
	"path"
	"path/filepath"
	"sort"
	"strings"
	"testing"

	"golang.org/x/mod/module"
	modzip "golang.org/x/mod/zip"
	"pgregory.net/rapid"

	"verif/harness/internal/gen"
	"verif/harness/internal/pbt"
	"verif/harness/internal/ref/pathref"
	"verif/harness/internal/ref/semverref"
	"verif/harness/internal/ref/zipref"
	"verif/harness/internal/zipgen"
)

func init() {
	pbt.Describe("cases = module id (mostly a valid path with matching canonical version incl. /vN, gopkg.in, +incompatible, pseudo-versions; sometimes invalid, mismatched or non-canonical) x a file list of 0-25 entries whose names come from a tree-shaped pool (shared directory prefixes so that vendor, nested-module, file/directory clash and case-fold interactions actually occur; unclean, absolute, reserved, Unicode and duplicate names mixed in) with modes regular/symlink/dir/device/pipe, honest small contents, a root go.mod of 15 kinds (absent, go <1.24, >=1.24, no go line, unknown directives, syntax errors), and optional header-only huge sizes that make the list fail the check. Oracle: Create succeeds iff the id is valid and the file check reports no error; on success CheckZip reports no invalid entry and no error, every entry name is prefix + clean valid path, no two names are equal under case folding, go.mod only at the root in lower case, Unzip into a fresh directory succeeds, and the extracted tree (walked by the harness) is exactly {(p, content(p)) : p in CheckFiles.Valid}, both inclusions, byte for byte; CheckFiles.Valid/Omitted/Invalid equal the reference classifier. Non-trivial: Create succeeded with >=2 files and at least one input entry was omitted or invalid-by-collision; or Create failed for a reason other than the module id. Distinct by JSON rendering. 6% of the lists contain one file that fails while being read (I/O error after half of its content) or cannot be opened: if that file is one the archive must contain, Create must not succeed. 3% of the lists hold one file of 32 KiB+1 ... 1 MiB, mostly highly compressible.",
		"zipref reference classifier (from the package documentation and the anchored decision order)", "path elements stay below 200 bytes (file-system limit, not a zip rule)", "files report their true size, except header-only sizes above the limits, which always make the list fail the check")
}

func TestMain(m *testing.M) { pbt.Main(m) }

func genCase(t *rapid.T) zipgen.ListCase {
	c := zipgen.GenList(t, true)
	if gen.Chance(t, 10, "scratchname") {
		zipgen.AddScratchName(t, &c)
	}
	if gen.Chance(t, 5, "dupkinds") {
		// the same path listed twice with different kinds (the verdict of the file check depends on which comes
		// first), in a list long enough for sorting algorithms to leave their small-input path (12, 16, 32 elements)
		name := []string{"dup/x.go", "a/b/dup.txt", "dup", "sub/LICENSE"}[gen.Uniform(t, 4, "dupname")]
		kinds := []string{"symlink", "irregular", "dir", "device", "pipe"}
		first := zipgen.Entry{Name: name, Mode: "file", Content: []byte("regular\n"), Size: -1}
		second := zipgen.Entry{Name: name, Mode: kinds[gen.Uniform(t, len(kinds), "dupkind")], Size: -1}
		if rapid.Bool().Draw(t, "dupswap") {
			first, second = second, first
		}
		fill := []int{11, 12, 13, 17, 30, 40}[gen.Uniform(t, 6, "dupfill")] - len(c.Entries)
		for i := 0; i < fill; i++ {
			c.Entries = append(c.Entries, zipgen.Entry{Name: fmt.Sprintf("fill/f%02d.go", i), Mode: "file", Content: []byte("package fill\n"), Size: -1})
		}
		a := gen.Uniform(t, len(c.Entries)+1, "dupat1")
		c.Entries = append(c.Entries[:a:a], append([]zipgen.Entry{first}, c.Entries[a:]...)...)
		b := a + 1 + gen.Uniform(t, len(c.Entries)-a, "dupat2")
		c.Entries = append(c.Entries[:b:b], append([]zipgen.Entry{second}, c.Entries[b:]...)...)
	}
	if gen.Chance(t, 3, "bigfile") {
		// one large file (beyond copy buffers of 32 KiB ... 1 MiB), usually highly compressible
		n := []int{32769, 65537, 131073, 262144, 262145, 300000, 700000, 1 << 20}[gen.Uniform(t, 8, "bigsize")]
		b := make([]byte, n)
		x, comp := uint32(n), gen.Chance(t, 70, "bigcomp")
		for i := range b {
			if comp {
				b[i] = byte('a' + i%3)
			} else {
				x = x*1664525 + 1013904223
				b[i] = byte(x >> 24)
			}
		}
		c.Entries = append(c.Entries, zipgen.Entry{Name: "big/table.go", Mode: "file", Content: b, Size: -1})
	}
	if gen.Chance(t, 6, "iofail") && len(c.Entries) > 0 {
		// one file cannot be read to its end, or cannot be opened at all (not the root go.mod, which the file
		// check itself reads leniently)
		if e := &c.Entries[gen.Uniform(t, len(c.Entries), "iofailwhich")]; e.Mode == "file" && e.Name != "go.mod" {
			e.Read = []string{"errmid", "erropen"}[gen.Uniform(t, 2, "iofailhow")]
		}
	}
	return c
}

func idValid(p, v string) bool {
	c := semverref.Canonical(v)
	if semverref.Build(v) == "+incompatible" {
		c += "+incompatible"
	}
	if v == "" || c != v {
		return false
	}
	ok, _ := pathref.CheckOK(p, v)
	return ok
}

func sortedCopy(s []string) []string {
	o := append([]string{}, s...)
	sort.Strings(o)
	return o
}

func errPaths(es []modzip.FileError) []string {
	var o []string
	for _, e := range es {
		o = append(o, e.Path)
	}
	return o
}

// CheckAgainstModel compares CheckFiles with the reference classifier (shared with C17).
func checkFilesVsModel(c zipgen.ListCase) (modzip.CheckedFiles, zipref.Report, *pbt.Failure) {
	var files []modzip.File
	var ms []zipref.Member
	for _, e := range c.Entries {
		files = append(files, zipgen.File{E: e})
		ms = append(ms, e.Member())
	}
	cf, err := modzip.CheckFiles(files)
	for i, f := range files {
		if f.Path() != c.Entries[i].Name {
			return cf, zipref.Report{}, pbt.Failf("checkfiles-reorders-files", "CheckFiles changed the caller's file list: position %d was %q, is %q", i, c.Entries[i].Name, f.Path())
		}
	}
	want := zipref.CheckFiles(ms, c.Post124())
	if fmt.Sprint(sortedCopy(cf.Valid)) != fmt.Sprint(sortedCopy(want.Valid)) {
		return cf, want, pbt.Failf("valid-set", "CheckFiles.Valid = %q, rules say %q", cf.Valid, want.Valid)
	}
	if fmt.Sprint(sortedCopy(errPaths(cf.Omitted))) != fmt.Sprint(sortedCopy(want.Omitted)) {
		return cf, want, pbt.Failf("omitted-set", "CheckFiles.Omitted = %q, rules say %q (post-1.24 vendoring: %v)", errPaths(cf.Omitted), want.Omitted, c.Post124())
	}
	if fmt.Sprint(sortedCopy(errPaths(cf.Invalid))) != fmt.Sprint(sortedCopy(want.Invalid)) {
		return cf, want, pbt.Failf("invalid-set", "CheckFiles.Invalid = %q, rules say %q", errPaths(cf.Invalid), want.Invalid)
	}
	if want.ValidSize > zipref.MaxZipFile && cf.SizeError == nil {
		return cf, want, pbt.Failf("size-error-missing", "valid files total %d bytes but SizeError is nil", want.ValidSize)
	}
	if want.CountedSize <= zipref.MaxZipFile && cf.SizeError != nil {
		return cf, want, pbt.Failf("size-error-spurious", "files total %d bytes but SizeError = %v", want.CountedSize, cf.SizeError)
	}
	if (err == nil) != (cf.SizeError == nil && len(cf.Invalid) == 0) {
		return cf, want, pbt.Failf("checkfiles-error", "CheckFiles err=%v with %d invalid, SizeError=%v", err, len(cf.Invalid), cf.SizeError)
	}
	return cf, want, nil
}

func check(c zipgen.ListCase) pbt.Result {
	r := pbt.Result{}
	if !zipgen.OKListBig(c, 1<<20) {
		r.Skip = true
		return r
	}
	cf, want, fail := checkFilesVsModel(c)
	if fail != nil {
		r.Fail = fail
		return r
	}
	var files []modzip.File
	content := map[string][]byte{}
	for _, e := range c.Entries {
		files = append(files, zipgen.File{E: e})
	}
	for i, cl := range want.Classes {
		if cl == zipref.Valid {
			content[c.Entries[i].Name] = c.Entries[i].Content
		}
	}
	m := module.Version{Path: c.Path, Version: c.Version}
	var buf bytes.Buffer
	var pathsBefore []string
	for _, f := range files {
		pathsBefore = append(pathsBefore, f.Path())
	}
	err := modzip.Create(&buf, m, files)
	for i, f := range files {
		if f.Path() != pathsBefore[i] {
			r.Fail = pbt.Failf("create-reorders-files", "Create reordered the caller's file list: position %d was %q, is %q", i, pathsBefore[i], f.Path())
			return r
		}
	}
	idOK := idValid(c.Path, c.Version)
	listOK := cf.SizeError == nil && len(cf.Invalid) == 0
	r.Classes = []string{fmt.Sprintf("id-valid=%v list-ok=%v", idOK, listOK)}
	// a file that goes into the archive and cannot be read: the archive cannot hold it byte for byte, so
	// creation must not succeed
	for i, cl := range want.Classes {
		if e := c.Entries[i]; cl == zipref.Valid && (e.Read == "errmid" || e.Read == "erropen") {
			r.Classes = append(r.Classes, "a valid file fails to read")
			if err == nil {
				r.Fail = pbt.Failf("create-swallows-io-error", "Create succeeded although reading %q failed (%s)", e.Name, e.Read)
				return r
			}
			if idOK && listOK {
				r.NonTrivial = true
				return r
			}
		}
	}
	if (err == nil) != (idOK && listOK) {
		r.Fail = pbt.Failf("create-iff", "Create err=%v, but module id valid=%v and file check ok=%v (invalid %q, size error %v)", err, idOK, listOK, errPaths(cf.Invalid), cf.SizeError)
		return r
	}
	if err != nil {
		r.NonTrivial = idOK
		return r
	}
	r.NonTrivial = len(cf.Valid) >= 2 && (len(cf.Omitted) > 0)
	if len(cf.Omitted) > 0 {
		r.Classes = append(r.Classes, "created with omissions")
	}
	// write the archive and check it
	dir, err := os.MkdirTemp("", "verif-c05-")
	if err != nil {
		panic(err)
	}
	defer os.RemoveAll(dir)
	zpath := filepath.Join(dir, "m.zip")
	if err := os.WriteFile(zpath, buf.Bytes(), 0o644); err != nil {
		panic(err)
	}
	zcf, zerr := modzip.CheckZip(m, zpath)
	if zerr != nil || len(zcf.Invalid) > 0 || zcf.SizeError != nil {
		r.Fail = pbt.Failf("checkzip-rejects-created", "CheckZip of a created archive: err=%v invalid=%q", zerr, errPaths(zcf.Invalid))
		return r
	}
	// documented restrictions, verified directly on the archive
	zr, err := zip.NewReader(bytes.NewReader(buf.Bytes()), int64(buf.Len()))
	if err != nil {
		r.Fail = pbt.Failf("archive-unreadable", "created archive is not a zip: %v", err)
		return r
	}
	prefix := c.Path + "@" + c.Version + "/"
	var names []string
	for _, zf := range zr.File {
		if !strings.HasPrefix(zf.Name, prefix) {
			r.Fail = pbt.Failf("entry-prefix", "entry %q lacks prefix %q", zf.Name, prefix)
			return r
		}
		name := zf.Name[len(prefix):]
		if path.Clean(name) != name || !pathref.Valid(name, pathref.File) {
			r.Fail = pbt.Failf("entry-path", "entry %q is not a clean valid file path", zf.Name)
			return r
		}
		if strings.EqualFold(path.Base(name), "go.mod") && name != "go.mod" {
			r.Fail = pbt.Failf("entry-gomod", "entry %q: go.mod only at the root in lower case", zf.Name)
			return r
		}
		names = append(names, name)
	}
	for i := range names {
		for j := i + 1; j < len(names); j++ {
			if strings.EqualFold(names[i], names[j]) {
				r.Fail = pbt.Failf("entry-fold-collision", "entries %q and %q are equal under case folding", names[i], names[j])
				return r
			}
			if strings.HasPrefix(names[j], names[i]+"/") || strings.HasPrefix(names[i], names[j]+"/") {
				r.Fail = pbt.Failf("entry-file-dir-clash", "entry %q is used as a directory by %q", names[i], names[j])
				return r
			}
		}
	}
	if fmt.Sprint(sortedCopy(names)) != fmt.Sprint(sortedCopy(cf.Valid)) {
		r.Fail = pbt.Failf("entries-vs-valid", "archive entries %q, CheckFiles.Valid %q", names, cf.Valid)
		return r
	}
	// extract and compare, both inclusions, byte for byte
	target := filepath.Join(dir, "out")
	if err := modzip.Unzip(target, m, zpath); err != nil {
		r.Fail = pbt.Failf("unzip-failed", "Unzip of a created archive failed: %v", err)
		return r
	}
	got := map[string][]byte{}
	filepath.Walk(target, func(p string, fi os.FileInfo, err error) error {
		if err != nil || fi.IsDir() {
			return nil
		}
		rel, _ := filepath.Rel(target, p)
		b, _ := os.ReadFile(p)
		got[filepath.ToSlash(rel)] = b
		return nil
	})
	for p, b := range content {
		gb, ok := got[p]
		if !ok {
			r.Fail = pbt.Failf("extracted-missing", "valid file %q is missing from the extracted tree", p)
			return r
		}
		if !bytes.Equal(gb, b) {
			r.Fail = pbt.Failf("extracted-content", "file %q extracted with different content", p)
			return r
		}
	}
	for p := range got {
		if _, ok := content[p]; !ok {
			r.Fail = pbt.Failf("extracted-extra", "extracted tree contains %q which is not a valid file of the list", p)
			return r
		}
	}
	return r
}

var subs = []pbt.Sub{
	pbt.New("create", 6000, 25000, genCase, check),
}

func TestGen(t *testing.T)    { pbt.RunAll(t, subs) }
func TestReplay(t *testing.T) { pbt.Replay(t, subs) }
