// Package c04: semver is the SemVer 2.0.0 total preorder on the documented grammar.
package c04

import (
	"fmt"
	"sort"
	"testing"

	"golang.org/x/mod/module"
	"golang.org/x/mod/semver"
	"pgregory.net/rapid"

	"verif/harness/internal/gen"
	"verif/harness/internal/pbt"
	ref "verif/harness/internal/ref/semverref"
)

func init() {
	pbt.Describe("strings/pairs/triples/lists drawn from a semver-shaped grammar (fields short, long up to 40 digits, 64-bit edge values, zero, leading-zero, empty; numeric/alphanumeric/hyphen prerelease identifiers; build metadata; shortened forms), 'near' variants that differ in one component, one-byte mutations and arbitrary strings; oracle = independent regexp validity + math/big precedence model and order axioms. Non-trivial: single = string valid or one mutation away from the grammar; pair/triple/sort = at least two operands valid and sharing MAJOR.MINOR.PATCH numerically, or a numeric field longer than 19 digits. Distinct by the JSON rendering of the case. Hostile identifiers and string mutations also insert any single byte 0..255 drawn uniformly. (On long lists of very long versions the all-pairs Less comparison thins out to neighbours and two further elements per element.)",
		"reference model semverref transcribes the package comment and SemVer 2.0.0 section 11", "regexp and math/big of the standard library are correct")
}

func TestMain(m *testing.M) { pbt.Main(m) }

type single struct {
	V       string
	Grammar bool
}

func genSingle(t *rapid.T) single {
	v, g := gen.VersionString(t)
	return single{v, g}
}

func sign(x int) int {
	switch {
	case x < 0:
		return -1
	case x > 0:
		return 1
	}
	return 0
}

func longField(vs ...string) bool {
	for _, v := range vs {
		run := 0
		for i := 0; i < len(v); i++ {
			if v[i] >= '0' && v[i] <= '9' {
				run++
				if run > 19 {
					return true
				}
			} else {
				run = 0
			}
		}
	}
	return false
}

func checkAccessors(v string) *pbt.Failure {
	if got, want := semver.IsValid(v), ref.IsValid(v); got != want {
		return pbt.Failf("isvalid", "IsValid(%q)=%v, grammar says %v", v, got, want)
	}
	type acc struct {
		name      string
		got, want string
	}
	for _, a := range []acc{
		{"Canonical", semver.Canonical(v), ref.Canonical(v)},
		{"Major", semver.Major(v), ref.Major(v)},
		{"MajorMinor", semver.MajorMinor(v), ref.MajorMinor(v)},
		{"Prerelease", semver.Prerelease(v), ref.Prerelease(v)},
		{"Build", semver.Build(v), ref.Build(v)},
	} {
		if a.got != a.want {
			return pbt.Failf("accessor-"+a.name, "%s(%q)=%q, model %q", a.name, v, a.got, a.want)
		}
	}
	// module.CanonicalVersion keeps exactly +incompatible
	want := ref.Canonical(v)
	if ref.Build(v) == "+incompatible" {
		want += "+incompatible"
	}
	if got := module.CanonicalVersion(v); got != want {
		return pbt.Failf("canonicalversion", "module.CanonicalVersion(%q)=%q, want %q", v, got, want)
	}
	if c := semver.Compare(v, v); c != 0 {
		return pbt.Failf("reflexive", "Compare(%q,%q)=%d", v, v, c)
	}
	return nil
}

func checkSingle(c single) pbt.Result {
	r := pbt.Result{NonTrivial: c.Grammar, Classes: []string{fmt.Sprintf("valid=%v", ref.IsValid(c.V))}}
	r.Fail = checkAccessors(c.V)
	return r
}

type pair struct{ V, W string }

func genNearList(t *rapid.T, n int) []string {
	base := gen.Parts(t, rapid.IntRange(0, 4).Draw(t, "hostilebase") == 0)
	out := []string{base.String()}
	cur := base
	for len(out) < n {
		k := rapid.IntRange(0, 9).Draw(t, "from")
		var nx gen.VerParts
		switch {
		case k < 5:
			nx = gen.Near(t, base, false)
		case k < 8:
			nx = gen.Near(t, cur, k == 7)
		default:
			s, _ := gen.VersionString(t)
			out = append(out, s)
			continue
		}
		cur = nx
		out = append(out, nx.String())
	}
	return out
}

func genPair(t *rapid.T) pair {
	l := genNearList(t, 2)
	if rapid.Bool().Draw(t, "swap") {
		return pair{l[1], l[0]}
	}
	return pair{l[0], l[1]}
}

func sameTriple(v, w string) bool {
	a, ok1 := ref.Parse(v)
	b, ok2 := ref.Parse(w)
	if !ok1 || !ok2 {
		return false
	}
	z := func(s string) string {
		if s == "" {
			return "0"
		}
		return s
	}
	return a.Major == b.Major && z(a.Minor) == z(b.Minor) && z(a.Patch) == z(b.Patch)
}

func checkPairCore(v, w string) *pbt.Failure {
	got, want := semver.Compare(v, w), ref.Compare(v, w)
	if got != want {
		return pbt.Failf("compare", "Compare(%q,%q)=%d, model %d", v, w, got, want)
	}
	if back := semver.Compare(w, v); back != -got {
		return pbt.Failf("antisymmetric", "Compare(%q,%q)=%d but reverse=%d", v, w, got, back)
	}
	if got != -1 && got != 0 && got != 1 {
		return pbt.Failf("range", "Compare(%q,%q)=%d", v, w, got)
	}
	cv, cw := semver.Canonical(v), semver.Canonical(w)
	if (got == 0) != (cv == cw) {
		return pbt.Failf("zero-iff-canonical", "Compare(%q,%q)=%d, canonical %q vs %q", v, w, got, cv, cw)
	}
	// Max: deprecated but documented: canonicalises then returns the greater
	wantMax := ref.Canonical(w)
	if want > 0 {
		wantMax = ref.Canonical(v)
	}
	if mx := semver.Max(v, w); mx != wantMax {
		return pbt.Failf("max", "Max(%q,%q)=%q, want %q", v, w, mx, wantMax)
	}
	return nil
}

func checkPair(c pair) pbt.Result {
	r := pbt.Result{NonTrivial: sameTriple(c.V, c.W) || (longField(c.V, c.W) && ref.IsValid(c.V) && ref.IsValid(c.W))}
	r.Classes = []string{fmt.Sprintf("cmp=%d", ref.Compare(c.V, c.W)), fmt.Sprintf("bothvalid=%v", ref.IsValid(c.V) && ref.IsValid(c.W))}
	if longField(c.V, c.W) {
		r.Classes = append(r.Classes, "longfield")
	}
	if f := checkAccessors(c.V); f != nil {
		r.Fail = f
		return r
	}
	if f := checkAccessors(c.W); f != nil {
		r.Fail = f
		return r
	}
	r.Fail = checkPairCore(c.V, c.W)
	return r
}

type triple struct{ A, B, C string }

func genTriple(t *rapid.T) triple {
	l := genNearList(t, 3)
	p := rapid.Permutation(l).Draw(t, "perm")
	return triple{p[0], p[1], p[2]}
}

func checkTriple(c triple) pbt.Result {
	vs := []string{c.A, c.B, c.C}
	nv := 0
	for _, v := range vs {
		if ref.IsValid(v) {
			nv++
		}
	}
	r := pbt.Result{NonTrivial: sameTriple(c.A, c.B) && sameTriple(c.B, c.C) || sameTriple(c.A, c.B) && nv == 3 || sameTriple(c.B, c.C) && nv == 3 || (longField(vs...) && nv == 3)}
	// transitivity of <= on the implementation's own answers, all 6 orders
	for i := 0; i < 3; i++ {
		for j := 0; j < 3; j++ {
			for k := 0; k < 3; k++ {
				x, y, z := vs[i], vs[j], vs[k]
				if semver.Compare(x, y) <= 0 && semver.Compare(y, z) <= 0 && semver.Compare(x, z) > 0 {
					r.Fail = pbt.Failf("transitive", "%q<=%q<=%q but Compare(first,last)>0", x, y, z)
					return r
				}
				if semver.Compare(x, y) == 0 && semver.Compare(y, z) == 0 && semver.Compare(x, z) != 0 {
					r.Fail = pbt.Failf("transitive-eq", "%q==%q==%q but ends differ", x, y, z)
					return r
				}
			}
		}
	}
	for i := 0; i < 3; i++ {
		for j := 0; j < 3; j++ {
			if f := checkPairCore(vs[i], vs[j]); f != nil {
				r.Fail = f
				return r
			}
		}
	}
	return r
}

type list struct{ L []string }

func genList(t *rapid.T) list {
	n := rapid.IntRange(2, 12).Draw(t, "n")
	if gen.Chance(t, 4, "longlist") {
		// sort implementations switch algorithms with length (insertion sort below 12, pdqsort above, ...)
		n = []int{13, 33, 64, 65, 100, 130, 300}[rapid.IntRange(0, 6).Draw(t, "biglen")]
	}
	l := genNearList(t, n)
	// duplicates and alternative spellings of equal versions matter for the tie-break
	if rapid.Bool().Draw(t, "dup") {
		i := rapid.IntRange(0, len(l)-1).Draw(t, "dupi")
		l = append(l, l[i])
	}
	return list{rapid.Permutation(l).Draw(t, "perm")}
}

func checkList(c list) pbt.Result {
	in := append([]string(nil), c.L...)
	out := append([]string(nil), c.L...)
	semver.Sort(out)
	ties := 0
	r := pbt.Result{}
	// permutation
	a := append([]string(nil), in...)
	b := append([]string(nil), out...)
	sort.Strings(a)
	sort.Strings(b)
	if fmt.Sprint(a) != fmt.Sprint(b) || len(a) != len(b) {
		r.Fail = pbt.Failf("sort-permutation", "Sort changed the multiset: in %q out %q", in, out)
		r.NonTrivial = true
		return r
	}
	for i := 0; i+1 < len(out); i++ {
		c := ref.Compare(out[i], out[i+1])
		if c > 0 || c == 0 && out[i] > out[i+1] {
			r.Fail = pbt.Failf("sort-order", "Sort(%q) = %q: %q before %q", in, out, out[i], out[i+1])
			r.NonTrivial = true
			return r
		}
		if c == 0 && out[i] != out[i+1] {
			ties++
		}
	}
	nv := 0
	for _, v := range in {
		if ref.IsValid(v) {
			nv++
		}
	}
	r.NonTrivial = nv >= 2
	if ties > 0 {
		r.Classes = append(r.Classes, "tie-by-string")
	}
	// ByVersion.Less agrees with (Compare, string) on every pair
	// (all pairs, unless the list is long and its versions are very long: the harness's own quadratic cost is
	// then bounded by comparing each element with its neighbours and two elements further away)
	bv := semver.ByVersion(in)
	total := 0
	for _, v := range in {
		total += len(v)
	}
	sparse := total*len(in) > 32<<20
	for i := range in {
		for j := range in {
			if d := (j - i + len(in)) % len(in); sparse && d > 1 && d < len(in)-1 && j != (i*7+3)%len(in) && j != (i*13+5)%len(in) {
				continue
			}
			c := ref.Compare(in[i], in[j])
			want := c < 0 || c == 0 && in[i] < in[j]
			if bv.Less(i, j) != want {
				r.Fail = pbt.Failf("less", "ByVersion.Less(%q,%q)=%v", in[i], in[j], !want)
				return r
			}
		}
	}
	return r
}

var subs = []pbt.Sub{
	pbt.New("single", 60000, 200000, genSingle, checkSingle),
	pbt.New("pair", 80000, 300000, genPair, checkPair),
	pbt.New("triple", 30000, 100000, genTriple, checkTriple),
	pbt.New("sort", 15000, 60000, genList, checkList),
}

func TestGen(t *testing.T)    { pbt.RunAll(t, subs) }
func TestReplay(t *testing.T) { pbt.Replay(t, subs) }

func FuzzPair(f *testing.F) {
	for _, s := range []string{"v1.2.3-alpha.1+build", "v1.0.0-0", "v2", "v18446744073709551616.0.0"} {
		f.Add([]byte(s))
	}
	pbt.Fuzz(f, subs, "pair")
}
