package c13

// Concurrent lookups against a forking server: the "schedules" part of C13's quantifier.
// One or two clients share a configuration and a cache; each runs several lookups in parallel
// goroutines; the server answers each record request with the log and size assigned to it by the
// case (so that lookups in flight at the same time carry heads of both forks), and serves hash
// tiles coherently: a tile request is answered from the fork whose issued head it fits.
// The interleaving of all external operations and of the client's yield points is chosen by the
// harness-owned scheduler from generated decisions.

import (
	"fmt"
	"strings"
	"sync"
	"sync/atomic"

	"golang.org/x/mod/sumdb"
	"pgregory.net/rapid"

	"verif/harness/internal/gen"
	"verif/harness/internal/pbt"
	"verif/harness/internal/sched"
	sw "verif/harness/internal/sumworld"
)

type concLookup struct {
	LogB bool  // the server answers this record request from log B
	Size int64 // with a head of this size
	Mod  int64 // record looked up (index into that log)
}

type concCase struct {
	H, Seed   int
	P, NA, NB int64
	StoredB   bool
	Stored    int64            // 0 = empty configuration
	Work      [][][]concLookup // client -> goroutine -> lookups
	TileBits  []int            // tie-breaks of the tile server
	Choices   []int
	History   []string
	Extra     int `json:",omitempty"` // index into sw.ExtraLines: further lines in every tree head
}

func genConc(t *rapid.T) *concCase {
	c := &concCase{H: []int{1, 2, 2, 3}[gen.Uniform(t, 4, "h")], Seed: rapid.IntRange(0, 1).Draw(t, "seed")}
	c.P = rapid.Int64Range(1, 12).Draw(t, "p")
	c.NA = c.P + rapid.Int64Range(1, 12).Draw(t, "xa")
	c.NB = c.P + rapid.Int64Range(1, 12).Draw(t, "xb")
	lim := func(b bool) int64 {
		if b {
			return c.NB
		}
		return c.NA
	}
	// the stored head: usually inside the common prefix, so that heads of both forks extend it
	switch rapid.IntRange(0, 5).Draw(t, "storedk") {
	case 0:
	case 1:
		c.StoredB = rapid.Bool().Draw(t, "storedb")
		c.Stored = rapid.Int64Range(1, lim(c.StoredB)).Draw(t, "stored")
	default:
		c.Stored = rapid.Int64Range(1, c.P).Draw(t, "storedprefix")
	}
	nc := []int{1, 1, 2, 2}[gen.Uniform(t, 4, "nclients")]
	oneLog := gen.Chance(t, 15, "onelog") // honest runs: everything on one log
	oneLogB := rapid.Bool().Draw(t, "onelogb")
	// "rising": each client's goroutines mostly follow one log with heads that grow from goroutine to goroutine,
	// beyond the stored head, while the other client does the same (on the same log or on the other): several
	// lookups of one client each bring a head that must be stored, and their flushes meet each other's writes
	rising := gen.Chance(t, 30, "rising")
	risingLog := []bool{rapid.Bool().Draw(t, "risinglog0"), rapid.Bool().Draw(t, "risinglog1")}
	used := map[sw.ModVer]bool{}
	for ci := 0; ci < nc; ci++ {
		ng := rapid.IntRange(2, 3).Draw(t, "ngor")
		var gs [][]concLookup
		for g := 0; g < ng; g++ {
			nl := []int{1, 1, 2}[gen.Uniform(t, 3, "nlookups")]
			var ls []concLookup
			for i := 0; i < nl; i++ {
				l := concLookup{LogB: rapid.Bool().Draw(t, "logb")}
				if oneLog {
					l.LogB = oneLogB
				}
				min := int64(1)
				if c.Stored > 0 && gen.Chance(t, 80, "beyondstored") && c.Stored < lim(l.LogB) {
					min = c.Stored + 1
				}
				l.Size = rapid.Int64Range(min, lim(l.LogB)).Draw(t, "size")
				if rising && gen.Chance(t, 85, "risinghere") {
					l.LogB = risingLog[ci%2]
					lo := c.Stored + 1
					if c.StoredB != l.LogB && c.Stored > c.P {
						lo = c.P + 1
					}
					if top := lim(l.LogB); lo <= top {
						// the g'th goroutine takes its size from the g'th slice of what lies above the stored head
						span := top - lo + 1
						a := lo + span*int64(g)/int64(ng)
						b := lo + span*int64(g+1)/int64(ng) - 1
						if b < a {
							b = a
						}
						l.Size = rapid.Int64Range(a, b).Draw(t, "risingsize")
					}
				}
				l.Mod = rapid.Int64Range(0, l.Size-1).Draw(t, "mod")
				ls = append(ls, l)
			}
			gs = append(gs, ls)
		}
		c.Work = append(c.Work, gs)
	}
	_ = used
	if gen.Chance(t, 25, "extralines") {
		c.Extra = 1 + gen.Uniform(t, len(sw.ExtraLines)-1, "extra")
	}
	c.TileBits = rapid.SliceOfN(rapid.IntRange(0, 1), 24, 24).Draw(t, "tilebits")
	c.Choices = gen.Schedule(t, 200, "sched")
	return c
}

func okConc(c *concCase) bool {
	if c == nil || c.H < 1 || c.H > 8 || c.P < 0 || c.P > 200 || c.NA <= c.P || c.NB <= c.P || c.NA > 400 || c.NB > 400 || len(c.Work) == 0 || len(c.Work) > 3 || len(c.Choices) > 3000 || len(c.History) > 8000 || len(c.TileBits) > 1000 {
		return false
	}
	lim := func(b bool) int64 {
		if b {
			return c.NB
		}
		return c.NA
	}
	if c.Stored < 0 || c.Stored > lim(c.StoredB) {
		return false
	}
	for _, gs := range c.Work {
		if len(gs) == 0 || len(gs) > 6 {
			return false
		}
		for _, ls := range gs {
			if len(ls) == 0 || len(ls) > 4 {
				return false
			}
			for _, l := range ls {
				if l.Size < 1 || l.Size > lim(l.LogB) || l.Mod < 0 || l.Mod >= l.Size {
					return false
				}
			}
		}
	}
	return true
}

// concState is what the forking server remembers.
type concState struct {
	w      *sw.World
	c      *concCase
	assign map[string]concLookup // remote lookup path -> what to answer
	issued []concLookup          // heads handed out so far (stored head first)
	ntile  int
	log    []handed // every signed head handed to or stored by a client, in the order of the schedule
	logMu  sync.Mutex
}

func (s *concState) add(h handed) {
	s.logMu.Lock()
	s.log = append(s.log, h)
	s.logMu.Unlock()
}

// size is how many heads have been handed over or stored so far (read by a goroutine whose lookup has just
// returned: everything the client did for that lookup is among the first size() entries).
func (s *concState) size() int {
	s.logMu.Lock()
	defer s.logMu.Unlock()
	return len(s.log)
}

// handed is one signed head seen by a client: carried by a record response (remote or cache), read from the
// configuration, or written to it.
type handed struct {
	client int
	kind   string // "resp", "config", "write"
	path   string // resp: lookup file name from "/lookup/" on
	raw    []byte
}

func (s *concState) logOf(b bool) *sw.Log {
	if b {
		return s.w.B
	}
	return s.w.A
}

// serverFor decides from which fork a remote request is answered.
func (s *concState) serverFor(path string) sw.Server {
	full := func(b bool) sw.Server {
		l := s.logOf(b)
		return sw.Server{Log: l, Size: l.Size()}
	}
	if strings.HasPrefix(path, "/lookup/") {
		if l, ok := s.assign[path]; ok {
			s.issued = append(s.issued, l)
			return sw.Server{Log: s.logOf(l.LogB), Size: l.Size}
		}
		return full(false)
	}
	t, ok := sw.ParseTilePath(strings.TrimPrefix(path, "/"))
	if !ok {
		return full(false)
	}
	// the forks whose issued heads this tile fits: a partial tile is the right edge of exactly the trees
	// with that many hashes at its level; a full tile lies inside every tree that is large enough
	fitsA, fitsB := false, false
	for _, h := range s.issued {
		cnt := h.Size >> uint(t.H*t.L)
		fit := cnt >= (t.N+1)<<uint(t.H)
		if t.W < 1<<uint(t.H) {
			fit = cnt == t.N<<uint(t.H)+int64(t.W)
		}
		if fit {
			if h.LogB {
				fitsB = true
			} else {
				fitsA = true
			}
		}
	}
	bit := false
	if len(s.c.TileBits) > 0 {
		bit = s.c.TileBits[s.ntile%len(s.c.TileBits)] == 1
	}
	s.ntile++
	useB := bit
	if fitsA != fitsB {
		useB = fitsB
	} else if !fitsA && !fitsB {
		// nothing issued fits: stay on the fork all issued heads lie on, if there is only one
		anyA, anyB := false, false
		for _, h := range s.issued {
			if h.LogB {
				anyB = true
			} else {
				anyA = true
			}
		}
		if anyA != anyB {
			useB = anyB
		}
	}
	if _, ok := s.w.Tile(s.logOf(useB), s.logOf(useB).Size(), t); !ok {
		useB = !useB
	}
	return full(useB)
}

// concOps wraps the shared world operations of one client with the scheduler.
type concOps struct {
	ops *sw.Ops
	sch *sched.Sched
	st  *concState
	idx int

	mu       sync.Mutex
	respHead map[string][]byte // module@version lookup file name -> head carried by the delivered record response
	wrote    [][]byte          // heads this client stored successfully
}

func (c *concOps) do(kind, arg string, op func()) {
	c.sch.Do(fmt.Sprintf("c%d %s %s", c.idx, kind, arg), op)
}

func (c *concOps) noteLookup(name string, data []byte, err error) {
	if err != nil || !strings.Contains(name, "/lookup/") {
		return
	}
	if _, _, hd, ok := sw.ParseLookupFile(data); ok {
		c.mu.Lock()
		c.respHead[name[strings.Index(name, "/lookup/"):]] = hd
		c.mu.Unlock()
		c.st.add(handed{c.idx, "resp", name[strings.Index(name, "/lookup/"):], hd})
	}
}

func (c *concOps) ReadRemote(path string) (data []byte, err error) {
	c.do("ReadRemote", path, func() {
		c.ops.Srv = c.st.serverFor(path)
		data, err = c.ops.ReadRemote(path)
		c.noteLookup(path, data, err)
	})
	return
}

func (c *concOps) ReadConfig(file string) (data []byte, err error) {
	c.do("ReadConfig", file, func() {
		data, err = c.ops.ReadConfig(file)
		if err == nil && strings.HasSuffix(file, "/latest") {
			c.st.add(handed{c.idx, "config", "", append([]byte(nil), data...)})
		}
	})
	return
}

func (c *concOps) WriteConfig(file string, old, new []byte) (err error) {
	c.do("WriteConfig", file, func() {
		err = c.ops.WriteConfig(file, old, new)
		if err == nil {
			c.mu.Lock()
			c.wrote = append(c.wrote, append([]byte(nil), new...))
			c.mu.Unlock()
			c.st.add(handed{c.idx, "write", "", append([]byte(nil), new...)})
		}
	})
	return
}

func (c *concOps) ReadCache(file string) (data []byte, err error) {
	c.do("ReadCache", file, func() {
		data, err = c.ops.ReadCache(file)
		c.noteLookup(file, data, err)
	})
	return
}

func (c *concOps) WriteCache(file string, data []byte) {
	c.do("WriteCache", file, func() { c.ops.WriteCache(file, data) })
}

func (c *concOps) Log(msg string)           {}
func (c *concOps) SecurityError(msg string) { c.ops.SecurityError(msg) }
func (c *concOps) VerifYield(point string)  { c.do("yield", point, func() {}) }

type concOutcome struct {
	ret              int // number of log entries when the lookup had returned
	client, gor, idx int
	l                concLookup
	mv               sw.ModVer
	lines            []string
	err              error
}

// assignment gives one answer per module@version: the first lookup that names it decides.
func assignment(c *concCase, w *sw.World) map[string]concLookup {
	assign := map[string]concLookup{}
	for _, gs := range c.Work {
		for _, ls := range gs {
			for _, l := range ls {
				p := sw.LookupPath(logOf(w, l.LogB).Mods[l.Mod])
				if _, ok := assign[p]; !ok {
					assign[p] = l
				}
			}
		}
	}
	return assign
}

func runConc(c *concCase, w *sw.World, assign map[string]concLookup) (*sw.Ops, []*concOps, []concOutcome, *sched.Sched, *concState) {
	ops := sw.NewOps(w, sw.Server{Log: w.A, Size: w.A.Size()})
	st := &concState{w: w, c: c, assign: assign}
	if c.Stored > 0 {
		ops.Config[w.Name+"/latest"] = w.Head(st.logOf(c.StoredB), c.Stored)
		st.issued = append(st.issued, concLookup{LogB: c.StoredB, Size: c.Stored})
	}
	var sch *sched.Sched
	if len(c.History) > 0 {
		sch = sched.NewReplay(c.History)
	} else {
		sch = sched.New(c.Choices)
	}
	var wg sync.WaitGroup
	var mu sync.Mutex
	var outs []concOutcome
	var done atomic.Int32
	total := 0
	var cops []*concOps
	for ci, gs := range c.Work {
		co := &concOps{ops: ops, sch: sch, st: st, idx: ci, respHead: map[string][]byte{}}
		cops = append(cops, co)
		cl := sumdb.NewClient(co)
		cl.SetTileHeight(c.H)
		for gi, ls := range gs {
			total++
			wg.Add(1)
			go func(ci, gi int, ls []concLookup) {
				defer wg.Done()
				defer done.Add(1)
				for i, l := range ls {
					mv := st.logOf(l.LogB).Mods[l.Mod]
					lines, err := cl.Lookup(mv.Path, mv.Version)
					ret := st.size()
					mu.Lock()
					outs = append(outs, concOutcome{ret, ci, gi, i, l, mv, lines, err})
					mu.Unlock()
				}
			}(ci, gi, ls)
		}
	}
	sch.Workers = "golang.org/x/mod/sumdb."
	sch.Run(func() bool { return int(done.Load()) == total })
	if !sch.Deadlock {
		wg.Wait() // (after a deadlock the lookups never return; their goroutines are abandoned)
	}
	return ops, cops, outs, sch, st
}

func checkConc(c *concCase) pbt.Result {
	r := pbt.Result{}
	if !okConc(c) {
		r.Skip = true
		return r
	}
	w := sw.New(sw.Config{H: c.H, NA: c.NA, Fork: c.P, NB: c.NB, Seed: int64(c.Seed), Extra: c.Extra})
	assign := assignment(c, w)
	ops, cops, outs, sch, st := runConc(c, w, assign)
	if sch.Deadlock {
		r.NonTrivial = true
		r.Fail = pbt.Failf("lookups-deadlocked", "the lookups never return: %v\nschedule (%d decisions): %v", sch.Err, len(sch.History), sch.History)
		if len(c.History) == 0 {
			c.History = append([]string(nil), sch.History...)
			c.Choices = nil
		}
		return r
	}
	if sch.Err != nil {
		r.Skip = true
		r.Classes = []string{"inconclusive: " + strings.SplitN(sch.Err.Error(), ":", 2)[0]}
		fmt.Printf("INCONCLUSIVE C13 concurrent: %v\n", sch.Err)
		return r
	}
	r.Key = strings.Join(sch.History, "|")
	fail := func(f *pbt.Failure) pbt.Result {
		f.Msg += fmt.Sprintf("\nschedule (%d decisions): %v", len(sch.History), sch.History)
		if len(c.History) == 0 {
			c.History = append([]string(nil), sch.History...)
			c.Choices = nil
		}
		r.Fail = f
		return r
	}
	events := ops.Snapshot()

	// 1. everything written is signed, genuine and authentic; every stored head extends the one it replaces
	if f := sw.AuditWrites(w, events); f != nil {
		return fail(f)
	}
	for _, e := range events {
		if e.Op != "writeconfig" || e.Err {
			continue
		}
		nh, ok1 := openHead(w, e.Delivered)
		oh, ok2 := openHead(w, e.Old)
		if !ok1 || !ok2 {
			return fail(pbt.Failf("stored-head-unsigned", "WriteConfig with a value that is not a signed head"))
		}
		if !prefixOf(oh, nh) {
			return fail(pbt.Failf("stored-head-not-extension", "stored head moved from size %d (in A:%v B:%v) to size %d (in A:%v B:%v): the old tree is not a prefix of the new one", oh.n, oh.inA, oh.inB, nh.n, nh.inA, nh.inB))
		}
	}

	// 2. the heads accepted through the shared configuration: the initial stored head, the head carried by the
	// record response of every successful lookup, every head stored successfully. Pairwise consistent.
	type acc struct {
		h    head
		what string
	}
	var accepted []acc
	anyOK := false
	for _, o := range outs {
		if o.err == nil {
			anyOK = true
		}
	}
	if c.Stored > 0 && anyOK {
		h, _ := openHead(w, w.Head(logOf(w, c.StoredB), c.Stored))
		accepted = append(accepted, acc{h, "initially stored head"})
	}
	// A lookup may succeed on the client's in-memory head before that head has been written back (it matches
	// the present, so the lookup itself has nothing to flush); if the lookup that does the writing then fails
	// (fork detected at the configuration, or an I/O error), the successful one has ridden on a head that was
	// never accepted into the shared timeline. The fork is reported by the failing lookup. So the heads of
	// successful lookups count as accepted only for clients none of whose lookups failed.
	failed := map[int]bool{}
	for _, o := range outs {
		if o.err != nil {
			failed[o.client] = true
		}
	}
	for _, o := range outs {
		if o.err != nil {
			continue
		}
		raw := cops[o.client].respHead[sw.LookupPath(o.mv)]
		h, ok := openHead(w, raw)
		if !ok || len(raw) == 0 {
			return fail(pbt.Failf("accepted-unsigned-head", "client %d: lookup of %s@%s succeeded although its record response carried no validly signed genuine head: %q", o.client, o.mv.Path, o.mv.Version, raw))
		}
		if !failed[o.client] {
			accepted = append(accepted, acc{h, fmt.Sprintf("head of the response to client %d's successful lookup of %s@%s (all lookups of that client succeeded)", o.client, o.mv.Path, o.mv.Version)})
		}
		// lines are genuine lines of a log that contains that head
		okLines := false
		for _, l := range []*sw.Log{w.A, w.B} {
			if l == w.A && !h.inA || l == w.B && !h.inB {
				continue
			}
			if id, ok := l.Find(o.mv); ok && fmt.Sprint(l.Lines(id, o.mv.Path, o.mv.Version)) == fmt.Sprint(o.lines) {
				okLines = true
			}
		}
		if !okLines {
			return fail(pbt.Failf("lines-from-other-timeline", "client %d: lookup of %s@%s returned %q, which are not genuine lines on the timeline of the head it was answered with", o.client, o.mv.Path, o.mv.Version, o.lines))
		}
	}
	for ci, co := range cops {
		for _, raw := range co.wrote {
			if h, ok := openHead(w, raw); ok {
				accepted = append(accepted, acc{h, fmt.Sprintf("head stored by client %d", ci)})
			}
		}
	}
	beyondA, beyondB := false, false
	for i := range accepted {
		if accepted[i].h.n > c.P {
			if accepted[i].h.inA {
				beyondA = true
			}
			if accepted[i].h.inB {
				beyondB = true
			}
		}
		for j := range accepted {
			a, b := accepted[i], accepted[j]
			if !prefixOf(a.h, b.h) && !prefixOf(b.h, a.h) {
				return fail(pbt.Failf("accepted-inconsistent-heads", "two mutually inconsistent signed heads were both accepted: size %d (in A:%v B:%v; %s) and size %d (in A:%v B:%v; %s)", a.h.n, a.h.inA, a.h.inB, a.what, b.h.n, b.h.inA, b.h.inB, b.what))
			}
		}
	}

	// 2b. A lookup whose head moved its client forward returns only after that head has been checked against
	// the shared configuration. "Moved forward" is decided from outside: no other head ever handed to that
	// client (another response, a configuration value) is at least as large and consistent with it, so only
	// this lookup can have installed it. Such a lookup must be followed, in its client, by a configuration
	// read whose value is consistent with the head, or by a successful write of a head that contains it.
	for _, o := range outs {
		if o.err != nil {
			continue
		}
		lp := sw.LookupPath(o.mv)
		pos := -1
		for i, e := range st.log {
			if e.client == o.client && e.kind == "resp" && e.path == lp {
				pos = i
			}
		}
		if pos < 0 {
			continue
		}
		h, ok := openHead(w, st.log[pos].raw)
		if !ok || h.n == 0 {
			continue
		}
		mustFlush := true
		if c.Stored > 0 {
			if sh, _ := openHead(w, w.Head(logOf(w, c.StoredB), c.Stored)); sh.n >= h.n && prefixOf(h, sh) {
				mustFlush = false
			}
		}
		for i, e := range st.log {
			// (heads handed to the client, not heads it wrote; and only what it had been handed by the time the
			// lookup returned can have spared this lookup the installing)
			if i == pos || e.client != o.client || len(e.raw) == 0 || e.kind == "write" || o.ret > pos && i >= o.ret {
				continue
			}
			if eh, ok := openHead(w, e.raw); ok && eh.n >= h.n && prefixOf(h, eh) {
				mustFlush = false
			}
		}
		if !mustFlush {
			continue
		}
		// ... and that must have happened before the lookup returned (o.ret is read right after the return, so it
		// can only be too generous)
		checked := false
		end := o.ret
		if end > len(st.log) || end <= pos {
			end = len(st.log)
		}
		for _, e := range st.log[pos+1 : end] {
			if e.client != o.client || e.kind == "resp" {
				continue
			}
			eh, ok := openHead(w, e.raw)
			if !ok {
				continue
			}
			if e.kind == "config" && (prefixOf(eh, h) || prefixOf(h, eh)) || e.kind == "write" && prefixOf(h, eh) {
				checked = true
			}
		}
		if !checked {
			return fail(pbt.Failf("head-not-checked-against-config", "client %d: the lookup of %s@%s succeeded on a head of size %d (in A:%v B:%v) that only this lookup can have installed, yet between receiving it and returning the client neither read a configuration value consistent with it nor stored it", o.client, o.mv.Path, o.mv.Version, h.n, h.inA, h.inB))
		}
	}

	// 3. security errors carry both heads
	var handed []head
	addHead := func(raw []byte) {
		if h, ok := openHead(w, raw); ok && len(raw) > 0 {
			handed = append(handed, h)
		}
	}
	for _, e := range events {
		switch {
		case e.Op == "config" && strings.HasSuffix(e.Name, "/latest"):
			addHead(e.Delivered)
		case (e.Op == "remote" || e.Op == "cache") && strings.Contains(e.Name, "/lookup/"):
			if _, _, hd, ok := sw.ParseLookupFile(e.Delivered); ok {
				addHead(hd)
			}
		}
	}
	nsec := 0
	for _, e := range events {
		if e.Op != "security" {
			continue
		}
		nsec++
		msg := strings.ReplaceAll(e.Name, "\n\t", "\n")
		found := false
		for i := range handed {
			for j := range handed {
				a, b := handed[i], handed[j]
				if !prefixOf(a, b) && !prefixOf(b, a) && strings.Contains(msg, string(a.raw)) && strings.Contains(msg, string(b.raw)) {
					found = true
				}
			}
		}
		if !found {
			return fail(pbt.Failf("security-message", "SecurityError raised but its message does not contain two mutually inconsistent signed heads verbatim (after undoing the indentation):\n%s", e.Name))
		}
	}
	for _, o := range outs {
		if o.err != nil && isSecurityErr(o.err) && nsec == 0 {
			return fail(pbt.Failf("security-without-callback", "client %d: lookup of %s@%s failed with ErrSecurity but the SecurityError callback was never invoked", o.client, o.mv.Path, o.mv.Version))
		}
	}

	// 4. everything on one log: nothing fails
	forked := false
	first := true
	var onB bool
	note := func(b bool, size int64) {
		if size <= c.P {
			return // inside the common prefix: on both logs
		}
		if first {
			onB, first = b, false
		} else if b != onB {
			forked = true
		}
	}
	if c.Stored > 0 {
		note(c.StoredB, c.Stored)
	}
	inflightBoth := false
	for _, gs := range c.Work {
		for _, ls := range gs {
			for _, l := range ls {
				l = assign[sw.LookupPath(logOf(w, l.LogB).Mods[l.Mod])]
				note(l.LogB, l.Size)
				// a record beyond the prefix exists on one log only
				note(l.LogB, l.Mod+1)
			}
		}
	}
	if !forked {
		for _, o := range outs {
			if o.err != nil {
				return fail(pbt.Failf("honest-timeline-failed", "everything presented lies on one log, yet client %d's lookup of %s@%s failed: %v", o.client, o.mv.Path, o.mv.Version, o.err))
			}
		}
		if nsec > 0 {
			return fail(pbt.Failf("false-security-error", "security error although every head lies on one log"))
		}
	}

	// classification: heads of both forks beyond the prefix were in flight in one client at the same time
	for _, gs := range c.Work {
		a, b := false, false
		for _, ls := range gs {
			l := assign[sw.LookupPath(logOf(w, ls[0].LogB).Mods[ls[0].Mod])]
			if l.Size > c.P {
				if l.LogB {
					b = true
				} else {
					a = true
				}
			}
		}
		if a && b {
			inflightBoth = true
		}
	}
	r.NonTrivial = sch.Contended > 0 && inflightBoth
	r.Classes = []string{fmt.Sprintf("clients=%d", len(c.Work))}
	if inflightBoth {
		r.Classes = append(r.Classes, "heads of both forks in flight in one client")
	}
	if nsec > 0 {
		r.Classes = append(r.Classes, "fork detected (security error)")
	}
	if beyondA || beyondB {
		r.Classes = append(r.Classes, "a head beyond the prefix was accepted")
	}
	if !forked {
		r.Classes = append(r.Classes, "single log")
	}
	return r
}
