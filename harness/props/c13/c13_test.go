// Package c13: the client follows one consistent timeline of signed tree heads.
package c13

import (
	"bytes"
	"errors"
	"fmt"
	"strings"
	"testing"

	"golang.org/x/mod/sumdb"
	"pgregory.net/rapid"

	"verif/harness/internal/gen"
	"verif/harness/internal/pbt"
	"verif/harness/internal/ref/merkleref"
	sw "verif/harness/internal/sumworld"
)

func init() {
	sw.SetWriteConflict(sumdb.ErrWriteConflict)
	pbt.Describe("world = two logs A = P||X and B = P||Y with a common prefix of |P| >= 0 records that differ from record |P| on (same module@version with other hashes, or other modules), both signed with the REAL server key (a forking server), tile height H in {1,2,3,4}. history = 1-6 lookups; each step names the log and size the server presents at that moment, optional client restarts, warm or cold cache (prefilled from A or from B), an initial stored head on A, on B or empty, and optionally a concurrent writer that puts another signed head (same log larger, or the other log) into the shared configuration right before the client's compare-and-swap; plus 0-2 per-response substitutions (the same tile / record / head as the OTHER log would serve it). Oracle (the harness knows which (size, hash) belong to A, B or both): every successful WriteConfig stores a validly signed head whose tree contains the replaced head's tree as a prefix in ground truth, sizes never decrease; all heads ever stored lie on one log; for every successful lookup the head carried by the delivered response is a prefix of the final stored head and the returned lines are genuine lines of a log that contains that head; every lookup whose error is sumdb.ErrSecurity comes with a SecurityError callback whose message contains, after undoing the tab indentation, two validly signed heads verbatim that are mutually inconsistent in ground truth; a SecurityError is never raised when every head involved lies on one log; with a single log nothing fails. concurrent-forks: 1-2 clients sharing configuration and cache x 2-3 goroutines x 1-2 lookups, each record request assigned a fork and a head size, tiles served from the fork whose issued head they fit, interleaving of all external operations and yield points chosen by the harness scheduler from generated decisions; same audit of stored-head moves, lines and security reports, and pairwise consistency of the initially stored head, every stored head and the response heads of successful lookups of clients none of whose lookups failed (non-trivial there: contended schedule with heads of both forks beyond the prefix in flight in one client). Non-trivial: a head of the other log beyond the common prefix was delivered (by the server, the cache, the configuration or the concurrent writer) while the client held a head beyond the prefix. Distinct by JSON rendering. Sequential sub, clause 2c: when a lookup returns successfully the head its record response carried is contained in the head stored at that moment, unless a configuration operation of that client instance failed, met the concurrent writer or was answered with substituted bytes.",
		"Ed25519 and SHA-256 are sound", "the forking server owns the real key; consistency is judged by the harness's own Merkle model", "liveness is not checked")
}

func TestMain(m *testing.M) { pbt.Main(m) }

type step struct {
	LogB    bool  // the server presents log B at this step
	Size    int64 // tree size the server presents
	Mod     int64 // record looked up (index into the served log); -1 = missing
	Restart bool
}

type c13Case struct {
	H, Seed    int
	P, NA, NB  int64
	StoredB    bool
	Stored     int64 // 0 = empty configuration
	PrefillB   bool
	Prefill    int
	PrefillTo  int64
	Steps      []step
	Faults     []sw.Fault
	WriterStep int   // concurrent writer acts during this step's first WriteConfig (-1 = never)
	WriterB    bool  // which log the concurrent writer follows
	WriterSize int64 // head size it writes
	More       []writer `json:",omitempty"` // further writers: the k'th of them acts during the (k+1)'th WriteConfig of that step (each on a head of its own)
	Extra      int   `json:",omitempty"` // index into sw.ExtraLines: further lines in every tree head
}

type writer struct {
	B    bool
	Size int64
}

func genCase(t *rapid.T) c13Case {
	c := c13Case{H: []int{1, 2, 2, 3, 4}[gen.Uniform(t, 5, "h")], Seed: rapid.IntRange(0, 1).Draw(t, "seed"), WriterStep: -1}
	c.P = rapid.Int64Range(0, 20).Draw(t, "p")
	if rapid.IntRange(0, 3).Draw(t, "p0") == 0 {
		c.P = []int64{0, 1, 2, 7, 8}[rapid.IntRange(0, 4).Draw(t, "pedge")]
	}
	c.NA = c.P + rapid.Int64Range(1, 20).Draw(t, "xa")
	c.NB = c.P + rapid.Int64Range(1, 20).Draw(t, "xb")
	sizeOn := func(b bool, label string) int64 {
		n := c.NA
		if b {
			n = c.NB
		}
		switch rapid.IntRange(0, 4).Draw(t, label+"k") {
		case 0:
			return n
		case 1:
			if c.P > 0 {
				return rapid.Int64Range(1, c.P).Draw(t, label+"inprefix")
			}
		case 2:
			if c.P+1 <= n {
				return rapid.Int64Range(c.P+1, n).Draw(t, label+"beyond")
			}
		}
		return rapid.Int64Range(1, n).Draw(t, label)
	}
	if rapid.IntRange(0, 3).Draw(t, "hasstored") != 0 {
		c.StoredB = rapid.IntRange(0, 3).Draw(t, "storedb") == 0
		c.Stored = sizeOn(c.StoredB, "stored")
	}
	c.Prefill = []int{0, 0, 1, 2}[rapid.IntRange(0, 3).Draw(t, "prefill")]
	c.PrefillB = rapid.IntRange(0, 2).Draw(t, "prefillb") == 0
	c.PrefillTo = sizeOn(c.PrefillB, "prefillto")
	ns := rapid.IntRange(1, 6).Draw(t, "nsteps")
	onB := false
	for i := 0; i < ns; i++ {
		if rapid.IntRange(0, 2).Draw(t, "switch") == 0 {
			onB = !onB
		}
		s := step{LogB: onB, Size: sizeOn(onB, "size")}
		s.Mod = rapid.Int64Range(0, s.Size-1).Draw(t, "mod")
		if rapid.IntRange(0, 9).Draw(t, "missing") == 0 {
			s.Mod = -1
		}
		s.Restart = i > 0 && rapid.IntRange(0, 3).Draw(t, "restart") == 0
		c.Steps = append(c.Steps, s)
	}
	nf := []int{0, 0, 0, 1, 1, 2}[rapid.IntRange(0, 5).Draw(t, "nfaults")]
	kinds := []string{"other-log", "other-log", "other-log-head", "other-log-head", "other-log-head", "stale-head", "swap", "error", "error"}
	classes := [][2]string{{"remote", "lookup"}, {"remote", "tile"}, {"remote", "tile"}, {"cache", "tile"}, {"cache", "lookup"}, {"config", "latest"}}
	for i := 0; i < nf; i++ {
		cl := classes[gen.Uniform(t, len(classes), "class")]
		c.Faults = append(c.Faults, sw.Fault{Op: cl[0], Class: cl[1], Ord: rapid.IntRange(0, 20).Draw(t, "ord"), Occ: rapid.IntRange(0, 1).Draw(t, "occ"),
			Kind: kinds[gen.Uniform(t, len(kinds), "kind")], Ord2: rapid.IntRange(0, 20).Draw(t, "ord2"), Size: rapid.Int64Range(0, 60).Draw(t, "fsize")})
	}
	if gen.Chance(t, 12, "template") {
		// a long-lived client that holds log A (stored head and warm cache from A) is shown several
		// different heads of log B, smaller and larger than its own, through different lookups
		c.StoredB, c.Stored = false, rapid.Int64Range(c.P+1, c.NA).Draw(t, "tstored")
		c.PrefillB, c.Prefill, c.PrefillTo = false, 2, c.NA
		c.Faults, c.Steps = nil, nil
		if gen.Chance(t, 50, "tfirstA") {
			c.Steps = append(c.Steps, step{LogB: false, Size: c.NA, Mod: rapid.Int64Range(0, c.NA-1).Draw(t, "tmodA")})
		}
		nb := rapid.IntRange(2, 4).Draw(t, "tnb")
		for i := 0; i < nb; i++ {
			sz := rapid.Int64Range(c.P+1, c.NB).Draw(t, "tsize")
			mod := rapid.Int64Range(0, sz-1).Draw(t, "tmod")
			// prefer a record whose module exists on log B only (odd index beyond the prefix), so that the
			// warm cache of log A cannot answer the lookup and the server's head of B is really presented
			var only []int64
			for i := c.P; i < sz; i++ {
				if i%2 == 1 {
					only = append(only, i)
				}
			}
			if len(only) > 0 && gen.Chance(t, 85, "tbonly") {
				mod = only[gen.Uniform(t, len(only), "tbo")]
			}
			c.Steps = append(c.Steps, step{LogB: true, Size: sz, Mod: mod})
		}
		if c.P >= 2 && gen.Chance(t, 35, "tsamehead") {
			// the identical forked head is presented again, this time for a record of the common prefix
			// that the half-warm cache does not hold (odd ids are not prefilled in that mode)
			c.Prefill = 1
			last := c.Steps[len(c.Steps)-1]
			var odd []int64
			for i := int64(1); i < c.P && i < last.Size; i += 2 {
				odd = append(odd, i)
			}
			if len(odd) > 0 {
				c.Steps = append(c.Steps, step{LogB: true, Size: last.Size, Mod: odd[gen.Uniform(t, len(odd), "tprefixmod")]})
			}
		}
		ns = len(c.Steps)
		if gen.Chance(t, 40, "ttileerror") {
			// ... while some tile cannot be read (cold cache in that case, so that tiles are really fetched)
			c.Prefill = []int{0, 1}[gen.Uniform(t, 2, "tprefill")]
			c.Faults = append(c.Faults, sw.Fault{Op: "remote", Class: "tile", Ord: rapid.IntRange(0, 20).Draw(t, "tord"), Occ: 0, Kind: "error"})
			if gen.Chance(t, 50, "tattach") {
				// a genuine record of log A answered with a head of log B
				c.Faults = append(c.Faults, sw.Fault{Op: "remote", Class: "lookup", Ord: rapid.IntRange(0, 20).Draw(t, "tord2"), Kind: "other-log-head", Size: rapid.Int64Range(c.P+1, c.NB).Draw(t, "tfsize")})
				c.Steps = append(c.Steps, step{LogB: false, Size: c.NA, Mod: rapid.Int64Range(0, c.NA-1).Draw(t, "tmodA2")})
				ns = len(c.Steps)
			}
		}
	}
	if gen.Chance(t, 25, "extralines") {
		c.Extra = 1 + gen.Uniform(t, len(sw.ExtraLines)-1, "extra")
	}
	if rapid.IntRange(0, 3).Draw(t, "writer") == 0 {
		c.WriterStep = rapid.IntRange(0, ns-1).Draw(t, "writerstep")
		c.WriterB = rapid.Bool().Draw(t, "writerb")
		c.WriterSize = sizeOn(c.WriterB, "writersize")
		if gen.Chance(t, 25, "morewriters") {
			// a busy shared configuration: the client loses several writes in a row, to heads that mostly lie on the log it
			// follows and grow, the last one perhaps on the other log
			st := c.Steps[c.WriterStep]
			n := []int{1, 2, 3, 4, 5, 6, 9}[gen.Uniform(t, 7, "nmore")]
			top := c.NA
			if st.LogB {
				top = c.NB
			}
			c.WriterB = st.LogB
			c.WriterSize = 1 + c.P/2
			size := c.WriterSize
			for k := 0; k < n; k++ {
				if size < top {
					size += rapid.Int64Range(0, 2).Draw(t, "moregrow")
					if size > top {
						size = top
					}
				}
				wr := writer{B: st.LogB, Size: size}
				if k == n-1 && rapid.Bool().Draw(t, "morelastfork") {
					wr.B = !st.LogB
					wr.Size = sizeOn(wr.B, "moreforksize")
				}
				c.More = append(c.More, wr)
			}
		}
	}
	return c
}

func okCase(c c13Case) bool {
	if c.H < 1 || c.H > 8 || c.P < 0 || c.P > 200 || c.NA <= c.P || c.NB <= c.P || c.NA > 400 || c.NB > 400 || len(c.Steps) == 0 || len(c.Steps) > 12 || len(c.Faults) > 6 || c.Prefill < 0 || c.Prefill > 2 {
		return false
	}
	lim := func(b bool) int64 {
		if b {
			return c.NB
		}
		return c.NA
	}
	if c.Stored < 0 || c.Stored > lim(c.StoredB) || c.PrefillTo < 1 || c.PrefillTo > lim(c.PrefillB) {
		return false
	}
	for _, s := range c.Steps {
		if s.Size < 1 || s.Size > lim(s.LogB) || s.Mod < -1 || s.Mod >= s.Size {
			return false
		}
	}
	if c.WriterStep >= len(c.Steps) || c.WriterStep >= 0 && (c.WriterSize < 1 || c.WriterSize > lim(c.WriterB)) {
		return false
	}
	for _, f := range c.Faults {
		if f.Ord < 0 || f.Occ < 0 || f.Ord2 < 0 || f.Size < 0 {
			return false
		}
	}
	if len(c.More) > 12 || len(c.More) > 0 && c.WriterStep < 0 {
		return false
	}
	for _, wr := range c.More {
		if wr.Size < 1 || wr.Size > lim(wr.B) {
			return false
		}
	}
	return true
}

// isSecurityErr reports whether a lookup failure is reported as a security error. Lookup decorates its
// errors with "%s@%s: %v", so the sentinel is not reachable through errors.Is; its text is.
func isSecurityErr(err error) bool {
	return err != nil && (errors.Is(err, sumdb.ErrSecurity) || strings.Contains(err.Error(), sumdb.ErrSecurity.Error()))
}

type result struct {
	step  int
	path  string
	vers  string
	lines []string
	err   error
	mark  int // number of events before this lookup started
	cfg   []byte // the stored head when the lookup returned
}

func logOf(w *sw.World, b bool) *sw.Log {
	if b {
		return w.B
	}
	return w.A
}

func run(c c13Case, w *sw.World, faults []sw.Fault, req map[string][]string) (*sw.Ops, []result) {
	ops := sw.NewOps(w, sw.Server{Log: w.A, Size: 1})
	if c.Stored > 0 {
		ops.Config[w.Name+"/latest"] = w.Head(logOf(w, c.StoredB), c.Stored)
	}
	ops.PrefillCache(logOf(w, c.PrefillB), c.PrefillTo, c.Prefill)
	if faults != nil {
		ops.Resolve(faults, req)
	}
	mk := func() *sumdb.Client {
		cl := sumdb.NewClient(ops)
		cl.SetTileHeight(c.H)
		return cl
	}
	cl := mk()
	var out []result
	for i, s := range c.Steps {
		if s.Restart {
			cl = mk()
		}
		ops.Srv = sw.Server{Log: logOf(w, s.LogB), Size: s.Size}
		ops.Interfere = nil
		if i == c.WriterStep {
			k := 0
			ops.Interfere = func(file string, cur []byte) []byte {
				if k > len(c.More) || file != w.Name+"/latest" {
					return nil
				}
				k++
				if k == 1 {
					return w.Head(logOf(w, c.WriterB), c.WriterSize)
				}
				return w.Head(logOf(w, c.More[k-2].B), c.More[k-2].Size)
			}
		}
		mv := sw.ModVer{Path: "missing.example.com/nothing", Version: "v1.0.0"}
		if s.Mod >= 0 {
			mv = logOf(w, s.LogB).Mods[s.Mod]
		}
		mark := len(ops.Snapshot())
		lines, err := cl.Lookup(mv.Path, mv.Version)
		out = append(out, result{i, mv.Path, mv.Version, lines, err, mark, append([]byte(nil), ops.Config[w.Name+"/latest"]...)})
	}
	return ops, out
}

type head struct {
	raw  []byte
	n    int64
	hash merkleref.Hash
	inA  bool
	inB  bool
}

func openHead(w *sw.World, raw []byte) (head, bool) {
	if len(raw) == 0 {
		return head{inA: true, inB: true}, true
	}
	n, h, ok := w.OpenHead(raw)
	if !ok {
		return head{}, false
	}
	a, b := w.WhichLogs(n, h)
	return head{raw, n, h, a, b}, true
}

// prefixOf reports whether tree x is a prefix of tree y in ground truth.
func prefixOf(x, y head) bool {
	return x.n <= y.n && (x.inA && y.inA || x.inB && y.inB)
}

func check(c c13Case) pbt.Result {
	r := pbt.Result{}
	if !okCase(c) {
		r.Skip = true
		return r
	}
	w := sw.New(sw.Config{H: c.H, NA: c.NA, Fork: c.P, NB: c.NB, Seed: int64(c.Seed), Extra: c.Extra})
	// resources for fault binding come from a run without substitutions and without the concurrent writer
	base := c
	base.Faults, base.WriterStep = nil, -1
	ops0, _ := run(base, w, nil, nil)
	ops, res := run(c, w, c.Faults, ops0.Requests())
	events := ops.Snapshot()

	// every head the harness handed to the client in this run (for the security-message clause)
	var handed []head
	addHead := func(raw []byte) {
		if h, ok := openHead(w, raw); ok && len(raw) > 0 {
			handed = append(handed, h)
		}
	}
	for _, e := range events {
		switch {
		case e.Op == "config" && strings.HasSuffix(e.Name, "/latest"):
			addHead(e.Delivered)
		case (e.Op == "remote" || e.Op == "cache") && strings.Contains(e.Name, "/lookup/"):
			if _, _, hd, ok := sw.ParseLookupFile(e.Delivered); ok {
				addHead(hd)
			}
		}
	}
	if c.WriterStep >= 0 {
		addHead(w.Head(logOf(w, c.WriterB), c.WriterSize))
		for _, wr := range c.More {
			addHead(w.Head(logOf(w, wr.B), wr.Size))
		}
	}

	// 1. writes: signed, genuine, monotone, prefix-extending; cache content authentic
	if f := sw.AuditWrites(w, events); f != nil {
		r.Fail = f
		return r
	}
	var stored []head
	if c.Stored > 0 {
		h, _ := openHead(w, w.Head(logOf(w, c.StoredB), c.Stored))
		stored = append(stored, h)
	}
	for _, e := range events {
		if e.Op != "writeconfig" || e.Err {
			continue
		}
		nh, ok1 := openHead(w, e.Delivered)
		oh, ok2 := openHead(w, e.Old)
		if !ok1 || !ok2 {
			r.Fail = pbt.Failf("stored-head-unsigned", "WriteConfig with a value that is not a signed head")
			return r
		}
		if !prefixOf(oh, nh) {
			r.Fail = pbt.Failf("stored-head-not-extension", "stored head moved from size %d (in A:%v B:%v) to size %d (in A:%v B:%v): the old tree is not a prefix of the new one", oh.n, oh.inA, oh.inB, nh.n, nh.inA, nh.inB)
			return r
		}
		stored = append(stored, nh)
	}
	// the concurrent writer's head also sits in the configuration; it is not the client's doing
	final, okF := openHead(w, ops.Config[w.Name+"/latest"])
	if !okF {
		r.Fail = pbt.Failf("final-config", "the configuration ends with a value that is not a signed head")
		return r
	}

	// 2. successful lookups: per client instance, every head merged during a successful lookup
	// (stored configuration read, head carried by the record response, head written back) was accepted;
	// accepted heads must be pairwise consistent, and returned lines must be genuine on their timeline.
	holdsBeyond := false
	for _, h := range stored {
		if h.n > c.P {
			holdsBeyond = true
		}
	}
	var accepted []head // of the current client instance
	for xi, x := range res {
		if c.Steps[x.step].Restart {
			accepted = nil
		}
		if x.err != nil {
			continue
		}
		end := len(events)
		if xi+1 < len(res) {
			end = res[xi+1].mark
		}
		var mine []head
		for _, e := range events[x.mark:end] {
			var raw []byte
			switch {
			case e.Op == "config" && strings.HasSuffix(e.Name, "/latest") && !e.Err:
				raw = e.Delivered
			case (e.Op == "remote" || e.Op == "cache") && strings.HasSuffix(e.Name, sw.LookupPath(sw.ModVer{Path: x.path, Version: x.vers})) && !e.Err:
				if _, _, hd, ok := sw.ParseLookupFile(e.Delivered); ok {
					raw = hd
				}
			case e.Op == "writeconfig" && !e.Err:
				raw = e.Delivered
			}
			if len(raw) == 0 {
				continue
			}
			h, ok := openHead(w, raw)
			if !ok {
				r.Fail = pbt.Failf("accepted-unsigned-head", "lookup %d of %s@%s succeeded although it was handed a value that is not a validly signed genuine head: %q", x.step, x.path, x.vers, raw)
				return r
			}
			mine = append(mine, h)
		}
		accepted = append(accepted, mine...)
		for i := range accepted {
			for j := range accepted {
				if !prefixOf(accepted[i], accepted[j]) && !prefixOf(accepted[j], accepted[i]) {
					r.Fail = pbt.Failf("accepted-inconsistent-heads", "one client accepted two mutually inconsistent signed heads: size %d (in A:%v B:%v) and size %d (in A:%v B:%v); lookup %d of %s@%s succeeded", accepted[i].n, accepted[i].inA, accepted[i].inB, accepted[j].n, accepted[j].inA, accepted[j].inB, x.step, x.path, x.vers)
					return r
				}
				if accepted[i].n > c.P {
					holdsBeyond = true
				}
			}
		}
		// lines: genuine on a log that contains every head this client has accepted
		okLines := len(x.lines) == 0
		for _, l := range []*sw.Log{w.A, w.B} {
			onLog := true
			for _, h := range accepted {
				if l == w.A && !h.inA || l == w.B && !h.inB {
					onLog = false
				}
			}
			if id, ok := l.Find(sw.ModVer{Path: x.path, Version: x.vers}); ok && onLog && fmt.Sprint(l.Lines(id, x.path, x.vers)) == fmt.Sprint(x.lines) {
				okLines = true
			}
		}
		if !okLines {
			r.Fail = pbt.Failf("lines-from-other-timeline", "lookup %d of %s@%s returned %q, which are not genuine lines on the timeline of the heads this client accepted", x.step, x.path, x.vers, x.lines)
			return r
		}
	}

	// 2c. An accepted head is a stored head. When a lookup returns successfully, the head its record response
	// carried is contained in the stored head: whichever lookup brought that head to the client wrote it back
	// before doing anything else with it, so that a client started later from the same configuration cannot
	// be shown a tree that forks below it. (Not asserted for a client instance one of whose configuration
	// operations failed, met a concurrent writer, or was answered with substituted bytes: there the lookup
	// that met the problem failed, and a later one may ride on the head that could not be stored.)
	instStart := 0
	for xi, x := range res {
		if c.Steps[x.step].Restart {
			instStart = x.mark
		}
		if x.err != nil {
			continue
		}
		end := len(events)
		if xi+1 < len(res) {
			end = res[xi+1].mark
		}
		exempt := false
		for _, e := range events[instStart:end] {
			if e.Op == "writeconfig" && e.Err || e.Op == "config" && (e.Err || e.Faulted != "") {
				exempt = true
			}
		}
		var raw []byte
		for _, e := range events[x.mark:end] {
			if (e.Op == "remote" || e.Op == "cache") && strings.HasSuffix(e.Name, sw.LookupPath(sw.ModVer{Path: x.path, Version: x.vers})) && !e.Err {
				if _, _, hd, ok := sw.ParseLookupFile(e.Delivered); ok {
					raw = hd
				}
			}
		}
		h, ok1 := openHead(w, raw)
		cfg, ok2 := openHead(w, x.cfg)
		if exempt || len(raw) == 0 || !ok1 || !ok2 {
			continue
		}
		r.Classes = append(r.Classes, "accepted head compared with the stored head")
		if len(x.cfg) == 0 || !prefixOf(h, cfg) {
			r.Fail = pbt.Failf("accepted-head-not-stored", "lookup %d of %s@%s succeeded on a head of size %d (in A:%v B:%v), and when it returned the stored head was of size %d (in A:%v B:%v), which does not contain it; no configuration operation of this client had failed", x.step, x.path, x.vers, h.n, h.inA, h.inB, cfg.n, cfg.inA, cfg.inB)
			return r
		}
	}

	// 2d. A lookup that lost a configuration write does not return successfully before it has looked at what won:
	// the last configuration operation of a successful lookup is never a lost write. (The winner may be a fork.)
	for xi, x := range res {
		if x.err != nil {
			continue
		}
		end := len(events)
		if xi+1 < len(res) {
			end = res[xi+1].mark
		}
		lastLost := false
		nlost := 0
		for _, e := range events[x.mark:end] {
			switch {
			case e.Op == "writeconfig":
				lastLost = e.Err
				if e.Err {
					nlost++
				}
			case e.Op == "config" && strings.HasSuffix(e.Name, "/latest"):
				lastLost = false
			}
		}
		if nlost > 0 {
			r.Classes = append(r.Classes, fmt.Sprintf("lookup succeeded after losing %d configuration writes", nlost))
		}
		if lastLost {
			r.Fail = pbt.Failf("returned-after-lost-write", "lookup %d of %s@%s returned successfully right after losing a configuration write (%d lost in this lookup), without reading the value that won", x.step, x.path, x.vers, nlost)
			return r
		}
	}

	// 3. security errors
	nsec := 0
	for _, e := range events {
		if e.Op != "security" {
			continue
		}
		nsec++
		msg := strings.ReplaceAll(e.Name, "\n\t", "\n")
		found := false
		for i := range handed {
			for j := range handed {
				a, b := handed[i], handed[j]
				if !prefixOf(a, b) && !prefixOf(b, a) && strings.Contains(msg, string(a.raw)) && strings.Contains(msg, string(b.raw)) {
					found = true
				}
			}
		}
		if !found {
			// either the message lacks the notes, or the accusation is false (all heads consistent)
			r.Fail = pbt.Failf("security-message", "SecurityError raised but its message does not contain two mutually inconsistent signed heads verbatim (after undoing the indentation):\n%s", e.Name)
			return r
		}
	}
	seenKey := map[string]bool{} // lookups already made by the current client instance (their results are memoised)
	initFailed := false          // so is a failed initialisation of the instance
	for xi, x := range res {
		if c.Steps[x.step].Restart {
			seenKey = map[string]bool{}
			initFailed = false
		}
		key := x.path + "@" + strings.TrimSuffix(x.vers, "/go.mod")
		repeated := seenKey[key]
		seenKey[key] = true
		if x.err != nil && strings.Contains(x.err.Error(), "initializing sumdb.Client") {
			if initFailed {
				repeated = true
			}
			initFailed = true
		}
		if x.err == nil || !isSecurityErr(x.err) || repeated {
			continue
		}
		// the callback is made by the failing lookup itself, before it returns
		end := len(events)
		if xi+1 < len(res) {
			end = res[xi+1].mark
		}
		called := false
		for _, e := range events[x.mark:end] {
			if e.Op == "security" {
				called = true
			}
		}
		if !called {
			r.Fail = pbt.Failf("security-without-callback", "lookup %d of %s@%s failed with ErrSecurity but the SecurityError callback was not invoked during that lookup (%d invocations in the whole history)", x.step, x.path, x.vers, nsec)
			return r
		}
	}

	// 4. single timeline served honestly => nothing fails
	oneLog := len(c.Faults) == 0 && c.WriterStep < 0
	for _, h := range handed {
		if !(h.inA && final.inA || h.inB && final.inB) {
			oneLog = false
		}
	}
	prevSize := c.Stored
	if c.Prefill > 0 && c.PrefillTo > prevSize {
		prevSize = c.PrefillTo // what the cache holds was once served
	}
	for i, s := range c.Steps {
		// an honest server never shrinks and is never behind a head it has already signed
		if s.Size < prevSize {
			oneLog = false
		}
		prevSize = s.Size
		if s.LogB != c.Steps[0].LogB || c.Stored > 0 && c.StoredB != s.LogB && c.Stored > c.P || c.Prefill > 0 && c.PrefillB != s.LogB && c.PrefillTo > c.P {
			oneLog = false
		}
		_ = i
	}
	if oneLog {
		for _, x := range res {
			s := c.Steps[x.step]
			if s.Mod >= 0 && x.err != nil {
				r.Fail = pbt.Failf("honest-timeline-failed", "everything presented lies on one log, yet lookup %d of %s@%s failed: %v", x.step, x.path, x.vers, x.err)
				return r
			}
		}
		if nsec > 0 {
			r.Fail = pbt.Failf("false-security-error", "security error although every head lies on one log")
			return r
		}
	}

	// classification
	otherBeyond := false
	for _, h := range handed {
		if h.n > c.P && !(h.inA && final.inA || h.inB && final.inB) {
			otherBeyond = true
		}
	}
	r.NonTrivial = otherBeyond && (holdsBeyond || final.n > c.P)
	if nsec > 0 {
		r.Classes = append(r.Classes, "fork detected (security error)")
	}
	if otherBeyond {
		r.Classes = append(r.Classes, "head of the other log beyond the prefix delivered")
	}
	if c.WriterStep >= 0 {
		r.Classes = append(r.Classes, "concurrent configuration writer")
	}
	if c.Prefill > 0 {
		r.Classes = append(r.Classes, "warm cache")
	}
	_ = bytes.Equal
	return r
}

var subs = []pbt.Sub{
	pbt.New("forks", 2500, 8000, genCase, check),
	pbt.New("concurrent-forks", 400, 2500, genConc, checkConc),
}

func TestGen(t *testing.T)    { pbt.RunAll(t, subs) }
func TestReplay(t *testing.T) { pbt.Replay(t, subs) }

// TestEnum: bounded exhaustive enumeration of the basic fork scenario: the client first follows log A up to
// size |P|+x (one or two lookups), then the server presents log B at size |P|+y, for every |P|, x, y up to a
// bound, every tile height in {1,2,3}, cold and warm caches, with and without a restart in between, and every
// record of B as the second lookup's target.
func TestEnum(t *testing.T) {
	maxP, maxXY := int64(4), int64(4)
	if pbt.Thorough() {
		maxP, maxXY = 8, 8
	}
	shard, nshards := pbt.Shard()
	k := 0
	for p := int64(0); p <= maxP; p++ {
		for x := int64(1); x <= maxXY; x++ {
			for y := int64(1); y <= maxXY; y++ {
				k++
				if k%nshards != shard {
					continue
				}
				for _, h := range []int{1, 2, 3} {
					for _, prefill := range []int{0, 2} {
						for _, restart := range []bool{false, true} {
							for target := int64(0); target < p+y; target++ {
								c := c13Case{H: h, P: p, NA: p + x, NB: p + y, Prefill: prefill, PrefillTo: p + x, WriterStep: -1,
									Steps: []step{{LogB: false, Size: p + x, Mod: (p + x) - 1}, {LogB: true, Size: p + y, Mod: target, Restart: restart}}}
								res := check(c)
								pbt.Count("enum-basic-fork", c, res)
								if res.Fail != nil {
									pbt.ReportEnum(t, "forks", c, res.Fail)
									return
								}
							}
						}
					}
				}
			}
		}
	}
	pbt.MarkExhaustive("enum-basic-fork")
}
