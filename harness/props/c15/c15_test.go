// Package c15: the parsed file structure and its syntax tree never diverge under edits.
package c15

import (
	"fmt"
	"testing"

	"pgregory.net/rapid"

	"verif/harness/internal/modedit"
	"verif/harness/internal/pbt"
)

func init() {
	pbt.Describe("same state machine as C08 (start file with marker comments x 1-25 edit operations, go.mod and go.work, Cleanup before bulk setters and at the end), with 40% of the operations following up on the key the previous one touched (Add X then Drop/Update X; update through a wildcard then drop through the new key). Oracle after the final Cleanup: for g = strict Parse(f.Format()), per directive kind the multiset held in the in-memory structure (module, go, toolchain, godebug, require+indirect, exclude, replace old/new, retract+rationale, tool, use) equals the multiset parsed from the output; no element with a zero key, none whose Syntax line is nil or cleared. Use.ModulePath is not compared (it is never written to the file). Non-trivial: at least two operations of which one changed a list. Distinct by JSON rendering.",
		"strict Parse is the reference reading of the formatted file (C02/C20 check the parser itself)",
		"retract rationale lines are compared after TrimSpace",
		"blocks of retract and module directives carry no block-level comments in the start files (see C08)")
}

func TestMain(m *testing.M) { pbt.Main(m) }

func genMod(t *rapid.T) modedit.Case  { return modedit.GenCase(t, false, 25, nil) }
func genWork(t *rapid.T) modedit.Case { return modedit.GenCase(t, true, 20, nil) }

func check(c modedit.Case) pbt.Result {
	r := pbt.Result{}
	if !modedit.OKCase(c) {
		r.Skip = true
		return r
	}
	startModel := modedit.FromSpec(c.Start)
	out, fail := modedit.Run(c)
	if fail != nil && out == nil {
		r.Fail = fail
		return r
	}
	if fail != nil {
		// the output does not parse: C08's business as well, but the structures certainly diverge
		r.Fail = fail
		r.NonTrivial = true
		return r
	}
	nops := 0
	for _, op := range c.Ops {
		if op.Name != "Cleanup" {
			nops++
		}
		r.Classes = append(r.Classes, op.Name)
	}
	changed := false
	for _, verb := range modedit.Verbs(c.Start.Work) {
		if fmt.Sprint(startModel.Multiset(verb)) != fmt.Sprint(out.Model.Multiset(verb)) {
			changed = true
		}
	}
	r.NonTrivial = nops >= 2 && changed
	for _, d := range out.Mem {
		if d.ZeroKey {
			r.Fail = pbt.Failf("placeholder-"+d.Verb, "after %v and Cleanup the %s list still holds a cleared placeholder entry\nstart:\n%s\noutput:\n%s", c.Ops, d.Verb, c.Start.Render(), out.Text)
			return r
		}
		if !d.HasSyntax {
			r.Fail = pbt.Failf("nil-syntax-"+d.Verb, "after %v and Cleanup a %s entry (%s) has no syntax line\nstart:\n%s", c.Ops, d.Verb, d.Canon, c.Start.Render())
			return r
		}
	}
	for _, verb := range modedit.Verbs(c.Start.Work) {
		mem, re := modedit.MultisetOf(out.Mem, verb), modedit.MultisetOf(out.Reparsed, verb)
		if fmt.Sprint(mem) != fmt.Sprint(re) {
			r.Fail = pbt.Failf("diverged-"+verb, "after %v\nin-memory %s list: %q\nparsed from output:   %q\nstart:\n%s\noutput:\n%s", c.Ops, verb, mem, re, c.Start.Render(), out.Text)
			return r
		}
	}
	return r
}

var subs = []pbt.Sub{
	pbt.New("gomod", 8000, 30000, genMod, check),
	pbt.New("gowork", 3000, 10000, genWork, check),
}

func TestGen(t *testing.T)    { pbt.RunAll(t, subs) }
func TestReplay(t *testing.T) { pbt.Replay(t, subs) }
