// Package c03: Merkle inclusion and consistency proofs are complete and sound (RFC 6962).
package c03

import (
	"bytes"
	"fmt"
	"sync"
	"testing"

	"golang.org/x/mod/sumdb/tlog"
	"pgregory.net/rapid"

	"verif/harness/internal/pbt"
	"verif/harness/internal/ref/merkleref"
	"verif/harness/internal/tlogutil"
)

func init() {
	pbt.Describe("cases = (log seed, kind record|tree, tree size t, index/old size n, one mutation of the otherwise valid check tuple). Sizes are biased to 2^k, 2^k+-1 and small values; the store handed to the prover is built by the independent layout enumerator. Mutations cover every component: one bit of any proof hash, drop/duplicate/swap/append/prepend/reverse proof elements, index +-1/random, either size +-1/random/0/negative/>2^62, leaf hash, either root, proofs of a different (t,n), kinds crossed. Oracle: prover output == RFC 6962 PATH/PROOF computed recursively over leaf data; checker verdict == RFC 9162 verification algorithm; out-of-range arguments give an error, not a panic. Non-trivial: t>=3 and (a mutation was applied or the proof has >=2 hashes). Distinct by JSON rendering. The enumeration sub covers every (t,n) with t<=limit. A proof is compared with the reference again after two further prover calls on the same log (held result). Every proof is also computed through a reader that answers requests for consecutive positions with a view into an in-memory store: same proof, and the store must come out as it went in.",
		"merkleref (RFC 6962 recursion + RFC 9162 verifiers) is correct; SHA-256 collision-free", "for first==second the consistency check is 'empty proof and equal roots' (RFC 6962 section 2.1.2; RFC 9162's algorithm assumes first<second)")
}

func TestMain(m *testing.M) { pbt.Main(m) }

type mutation struct {
	Op    string
	I, J  int
	Bit   int
	Delta int64
	T2    int64
	N2    int64
}

type proofCase struct {
	Seed int64
	Tree bool // consistency proof instead of inclusion proof
	T, N int64
	Mut  mutation
	Mut2 *mutation // optional second mutation of the same tuple
}

func genSize(t *rapid.T, max int64, label string) int64 {
	switch rapid.IntRange(0, 9).Draw(t, label+"k") {
	case 0, 1, 2:
		return rapid.Int64Range(1, 9).Draw(t, label+"small")
	case 3, 4, 5:
		k := rapid.IntRange(1, 13).Draw(t, label+"pow")
		v := int64(1)<<uint(k) + int64(rapid.IntRange(-1, 1).Draw(t, label+"d"))
		if v > max {
			v = max
		}
		if v < 1 {
			v = 1
		}
		return v
	}
	return rapid.Int64Range(1, max).Draw(t, label+"any")
}

var mutOps = []string{"none", "none", "flip-proof-bit", "drop", "dup", "swap", "append", "prepend", "reverse", "truncate-all",
	"index-delta", "index-set", "t-delta", "t-set", "n-set", "flip-leaf", "flip-root", "flip-old-root", "other-proof", "cross-kind", "swap-sizes", "zero-root", "zero-leaf", "zero-roots", "same-odd-sizes"}

var oddSizes = []int64{0, -1, -5, 1 << 62, 1<<62 + 1, 1<<63 - 1, -1 << 63, 1, 2}

func genCase(t *rapid.T) proofCase {
	max := int64(600)
	if pbt.Thorough() {
		max = 6000
	}
	c := proofCase{Seed: int64(rapid.IntRange(0, 5).Draw(t, "seed")), Tree: rapid.Bool().Draw(t, "tree")}
	c.T = genSize(t, max, "t")
	if c.Tree {
		c.N = 1 + rapid.Int64Range(0, c.T-1).Draw(t, "n")
		if rapid.IntRange(0, 5).Draw(t, "edge") == 0 {
			c.N = []int64{1, c.T, c.T - 1, (c.T + 1) / 2}[rapid.IntRange(0, 3).Draw(t, "nedge")]
			if c.N < 1 {
				c.N = 1
			}
		}
	} else {
		c.N = rapid.Int64Range(0, c.T-1).Draw(t, "n")
		if rapid.IntRange(0, 5).Draw(t, "edge") == 0 {
			c.N = []int64{0, c.T - 1, c.T / 2}[rapid.IntRange(0, 2).Draw(t, "nedge")]
		}
	}
	genMut := func(label string) mutation {
		m := mutation{Op: mutOps[rapid.IntRange(0, len(mutOps)-1).Draw(t, label+"op")]}
		m.I = rapid.IntRange(0, 20).Draw(t, label+"i")
		m.J = rapid.IntRange(0, 20).Draw(t, label+"j")
		m.Bit = rapid.IntRange(0, 255).Draw(t, label+"bit")
		m.Delta = int64(rapid.IntRange(-2, 2).Draw(t, label+"delta"))
		if rapid.IntRange(0, 3).Draw(t, label+"odd") == 0 {
			m.Delta = oddSizes[rapid.IntRange(0, len(oddSizes)-1).Draw(t, label+"oddv")]
		}
		m.T2 = genSize(t, max, label+"t2")
		m.N2 = rapid.Int64Range(0, m.T2-1).Draw(t, label+"n2")
		return m
	}
	c.Mut = genMut("")
	if c.Mut.Op != "none" && rapid.IntRange(0, 3).Draw(t, "second") == 0 {
		// invalid tuples that differ from every valid one in two components at once
		m2 := genMut("b")
		c.Mut2 = &m2
	}
	return c
}

func eqProof(a []tlog.Hash, b []merkleref.Hash) bool {
	if len(a) != len(b) {
		return false
	}
	for i := range a {
		if merkleref.Hash(a[i]) != b[i] {
			return false
		}
	}
	return true
}

func toRef(p []tlog.Hash) []merkleref.Hash {
	out := make([]merkleref.Hash, len(p))
	for i := range p {
		out[i] = merkleref.Hash(p[i])
	}
	return out
}

func flip(h tlog.Hash, bit int) tlog.Hash {
	h[(bit/8)%32] ^= 1 << uint(bit%8)
	return h
}

// validTuple computes proof and hashes by the reference and checks the prover against it.
func proveAndCompare(tree *merkleref.Tree, store []merkleref.Hash, isTree bool, t, n int64) ([]tlog.Hash, *pbt.Failure) {
	rd := tlogutil.Reader(store)
	// the same proof read the way an in-memory store is read (views for consecutive positions): same proof,
	// and the store comes out as it went in
	mem := make([]tlog.Hash, len(store))
	for i, h := range store {
		mem[i] = tlog.Hash(h)
	}
	var vp []tlog.Hash
	var verr error
	if isTree {
		vp, verr = tlog.ProveTree(t, n, tlogutil.ViewReader(mem))
	} else {
		vp, verr = tlog.ProveRecord(t, n, tlogutil.ViewReader(mem))
	}
	for i, h := range store {
		if mem[i] != tlog.Hash(h) {
			return nil, pbt.Failf("store-modified", "after proving (tree=%v) t=%d n=%d the stored hash at position %d of the in-memory store the prover read from is no longer the hash that was stored there", isTree, t, n, i)
		}
	}
	if isTree {
		p, err := tlog.ProveTree(t, n, rd)
		want := tree.Proof(n, t)
		if verr != nil || !eqProof(vp, want) {
			return nil, pbt.Failf("provetree-view", "ProveTree(%d,%d) through views of an in-memory store: %d hashes, err=%v; differs from the RFC 6962 PROOF", t, n, len(vp), verr)
		}
		if err != nil || !eqProof(p, want) {
			return nil, pbt.Failf("provetree", "ProveTree(%d,%d) = %d hashes, err=%v; RFC 6962 PROOF has %d hashes or differs", t, n, len(p), err, len(want))
		}
		if err := tlog.CheckTree(p, t, tlog.Hash(tree.MTH(0, t)), n, tlog.Hash(tree.MTH(0, n))); err != nil {
			return nil, pbt.Failf("complete-tree", "CheckTree rejects the genuine proof for t=%d n=%d: %v", t, n, err)
		}
		// a proof stays what it is while other proofs are made from the same log
		tlog.ProveTree(t, 1+(n+t/2)%t, rd)
		tlog.ProveRecord(t, (n+t/2)%t, rd)
		if !eqProof(p, want) {
			return nil, pbt.Failf("proof-changed-later", "the proof ProveTree(%d,%d) returned was the RFC 6962 proof when returned and is not after two later prover calls", t, n)
		}
		return p, nil
	}
	p, err := tlog.ProveRecord(t, n, rd)
	want := tree.Path(n, t)
	if verr != nil || !eqProof(vp, want) {
		return nil, pbt.Failf("proverecord-view", "ProveRecord(%d,%d) through views of an in-memory store: %d hashes, err=%v; differs from the RFC 6962 PATH", t, n, len(vp), verr)
	}
	if err != nil || !eqProof(p, want) {
		return nil, pbt.Failf("proverecord", "ProveRecord(%d,%d) = %d hashes, err=%v; RFC 6962 PATH has %d hashes or differs", t, n, len(p), err, len(want))
	}
	if err := tlog.CheckRecord(p, t, tlog.Hash(tree.MTH(0, t)), n, tlog.Hash(merkleref.LeafHash(tree.Leaves[n]))); err != nil {
		return nil, pbt.Failf("complete-record", "CheckRecord rejects the genuine proof for t=%d n=%d: %v", t, n, err)
	}
	tlog.ProveRecord(t, (n+t/2)%t, rd)
	tlog.ProveTree(t, 1+(n+t/2)%t, rd)
	if !eqProof(p, want) {
		return nil, pbt.Failf("proof-changed-later", "the proof ProveRecord(%d,%d) returned was the RFC 6962 path when returned and is not after two later prover calls", t, n)
	}
	// the leaf hash a caller of CheckRecord computes for the record's content is the RFC 6962 leaf hash
	if got := tlog.RecordHash(tree.Leaves[n]); merkleref.Hash(got) != merkleref.LeafHash(tree.Leaves[n]) {
		return nil, pbt.Failf("leaf-hash", "RecordHash of record %d (%d bytes) is not SHA-256(0x00 || data): the record's inclusion proof is checked against another leaf hash", n, len(tree.Leaves[n]))
	}
	return p, nil
}

func check(c proofCase) pbt.Result {
	r := pbt.Result{}
	if c.T < 1 || c.T > 20000 || c.Tree && (c.N < 1 || c.N > c.T) || !c.Tree && (c.N < 0 || c.N >= c.T) || c.Mut.T2 < 1 || c.Mut.T2 > 20000 || c.Mut.N2 < 0 || c.Mut.N2 >= c.Mut.T2 || c.Mut2 != nil && (c.Mut2.T2 < 1 || c.Mut2.T2 > 20000 || c.Mut2.N2 < 0 || c.Mut2.N2 >= c.Mut2.T2) {
		r.Skip = true
		return r
	}
	maxT := c.T
	if c.Mut.T2 > maxT {
		maxT = c.Mut.T2
	}
	if c.Mut2 != nil && c.Mut2.T2 > maxT {
		maxT = c.Mut2.T2
	}
	tree := tlogutil.Tree(c.Seed, maxT)
	p, f := proveAndCompare(tree, tlogutil.Store(c.Seed, c.T), c.Tree, c.T, c.N)
	if f != nil {
		r.Fail = f
		r.NonTrivial = true
		return r
	}
	// the tuple
	proof := append([]tlog.Hash(nil), p...)
	t, n := c.T, c.N
	root := tlog.Hash(tree.MTH(0, c.T))
	var leaf tlog.Hash // record: leaf hash; tree: old root
	if c.Tree {
		leaf = tlog.Hash(tree.MTH(0, c.N))
	} else {
		leaf = tlog.Hash(merkleref.LeafHash(tree.Leaves[c.N]))
	}
	isTree := c.Tree
	applied := c.Mut.Op != "none"
	muts := []mutation{c.Mut}
	if c.Mut2 != nil {
		muts = append(muts, *c.Mut2)
	}
	for _, m := range muts {
		switch m.Op {
		case "same-odd-sizes":
			// both sizes the same out-of-range (or degenerate) value, equal hashes, no proof
			t, n = m.Delta, m.Delta
			if !isTree {
				n = m.Delta - 1
			}
			proof, leaf = nil, root
		case "zero-root":
			root = tlog.Hash{}
		case "zero-leaf":
			leaf = tlog.Hash{}
		case "zero-roots":
			root, leaf = tlog.Hash{}, tlog.Hash{}
		case "flip-proof-bit":
			if len(proof) > 0 {
				i := m.I % len(proof)
				proof[i] = flip(proof[i], m.Bit)
			} else {
				applied = false
			}
		case "drop":
			if len(proof) > 0 {
				i := m.I % len(proof)
				proof = append(proof[:i:i], proof[i+1:]...)
			} else {
				applied = false
			}
		case "dup":
			if len(proof) > 0 {
				i := m.I % len(proof)
				proof = append(proof[:i+1:i+1], proof[i:]...)
			} else {
				applied = false
			}
		case "swap":
			if len(proof) > 1 {
				i, j := m.I%len(proof), m.J%len(proof)
				proof[i], proof[j] = proof[j], proof[i]
			} else {
				applied = false
			}
		case "append":
			proof = append(proof, flip(root, m.Bit))
		case "prepend":
			proof = append([]tlog.Hash{leaf}, proof...)
		case "reverse":
			for i, j := 0, len(proof)-1; i < j; i, j = i+1, j-1 {
				proof[i], proof[j] = proof[j], proof[i]
			}
		case "truncate-all":
			proof = nil
		case "index-delta":
			n += m.Delta
		case "index-set":
			n = m.N2
		case "t-delta":
			t += m.Delta
		case "t-set":
			t = m.T2
		case "n-set":
			n = m.Delta
		case "flip-leaf":
			leaf = flip(leaf, m.Bit)
		case "flip-root":
			root = flip(root, m.Bit)
		case "flip-old-root":
			if c.Tree {
				leaf = flip(leaf, m.Bit)
			} else {
				root = flip(root, m.Bit+1)
			}
		case "other-proof":
			// genuine proof of a different (t2, n2) presented for (t, n)
			n2 := m.N2
			if c.Tree {
				n2++
			}
			p2, f := proveAndCompare(tree, tlogutil.Store(c.Seed, m.T2), c.Tree, m.T2, n2)
			if f != nil {
				r.Fail = f
				return r
			}
			proof = append([]tlog.Hash(nil), p2...)
		case "cross-kind":
			isTree = !isTree
		case "swap-sizes":
			t, n = n, t
		}
	}
	r.NonTrivial = c.T >= 3 && (applied || len(p) >= 2)
	kind := "record"
	if isTree {
		kind = "tree"
	}
	var got error
	var want bool
	// the proof is handed over in a slice with spare capacity; a checker only reads it
	backing := make([]tlog.Hash, len(proof)+3)
	copy(backing, proof)
	backing[len(proof)] = flip(root, 7)
	proof = backing[:len(proof)]
	keep := append([]tlog.Hash(nil), backing...)
	if isTree {
		got = tlog.CheckTree(proof, t, root, n, leaf)
		want = merkleref.VerifyConsistency(toRef(keep[:len(proof)]), n, t, merkleref.Hash(leaf), merkleref.Hash(root))
	} else {
		got = tlog.CheckRecord(proof, t, root, n, leaf)
		want = merkleref.VerifyInclusion(toRef(keep[:len(proof)]), t, merkleref.Hash(root), n, merkleref.Hash(leaf))
	}
	for i := range backing {
		if backing[i] != keep[i] {
			r.Fail = pbt.Failf("checker-writes-proof", "Check%s changed element %d of the caller's proof slice (len %d, cap %d)", kind, i, len(proof), cap(proof))
			return r
		}
	}
	var again error
	if isTree {
		again = tlog.CheckTree(proof, t, root, n, leaf)
	} else {
		again = tlog.CheckRecord(proof, t, root, n, leaf)
	}
	if (again == nil) != (got == nil) {
		r.Fail = pbt.Failf("checker-not-repeatable", "Check%s gave %v and then %v for the same tuple", kind, got, again)
		return r
	}
	m := c.Mut
	opName := m.Op
	if c.Mut2 != nil {
		opName += "+" + c.Mut2.Op
		r.Classes = append(r.Classes, "two mutations")
	}
	r.Classes = append(r.Classes, fmt.Sprintf("%s op=%s accepted=%v", kind, m.Op, want))
	if (got == nil) != want {
		r.Fail = pbt.Failf("soundness-"+kind, "Check%s(proof len %d, t=%d, n=%d) err=%v but the RFC 9162 verifier says accept=%v (case t=%d n=%d op=%s)", kind, len(proof), t, n, got, want, c.T, c.N, opName)
		return r
	}
	// provers refuse out-of-range arguments with an error
	if c.Mut2 == nil && (m.Op == "index-delta" || m.Op == "t-delta" || m.Op == "n-set" || m.Op == "swap-sizes") {
		rd := tlogutil.Reader(tlogutil.Store(c.Seed, c.T))
		if isTree {
			inRange := t >= 1 && n >= 1 && n <= t
			if !inRange {
				if _, err := tlog.ProveTree(t, n, rd); err == nil {
					r.Fail = pbt.Failf("prove-range", "ProveTree(%d,%d) accepted out-of-range arguments", t, n)
				}
			}
		} else {
			inRange := t >= 0 && n >= 0 && n < t
			if !inRange {
				if _, err := tlog.ProveRecord(t, n, rd); err == nil {
					r.Fail = pbt.Failf("prove-range", "ProveRecord(%d,%d) accepted out-of-range arguments", t, n)
				}
			}
		}
	}
	return r
}

var subs = []pbt.Sub{
	pbt.New("proofs", 40000, 100000, genCase, check),
}

func TestGen(t *testing.T)    { pbt.RunAll(t, subs) }
func TestReplay(t *testing.T) { pbt.Replay(t, subs) }

// TestEnum: every (t, n) for t up to a limit: prover == RFC, checker accepts, and the
// single-bit / drop-one mutations of every proof hash are rejected unless the RFC verifier accepts.
func TestEnum(t *testing.T) {
	limit := int64(40)
	if pbt.Thorough() {
		limit = 130
	}
	shard, nshards := pbt.Shard()
	for T := int64(1); T <= limit; T++ {
		if int(T)%nshards != shard {
			continue
		}
		for _, isTree := range []bool{false, true} {
			lo, hi := int64(0), T-1
			if isTree {
				lo, hi = 1, T
			}
			for n := lo; n <= hi; n++ {
				tree := tlogutil.Tree(0, T)
				p, f := proveAndCompare(tree, tlogutil.Store(0, T), isTree, T, n)
				c := proofCase{Seed: 0, Tree: isTree, T: T, N: n, Mut: mutation{Op: "none", T2: 1}}
				if f != nil {
					pbt.ReportEnum(t, "proofs", c, f)
					return
				}
				pbt.Count("enum-all-t-n", c, pbt.Result{NonTrivial: T >= 3})
				for i := range p {
					for _, op := range []string{"flip-proof-bit", "drop", "dup"} {
						cc := c
						cc.Mut = mutation{Op: op, I: i, Bit: int(T+n) % 256, T2: 1}
						res := check(cc)
						pbt.Count("enum-mutations", cc, res)
						if res.Fail != nil {
							pbt.ReportEnum(t, "proofs", cc, res.Fail)
							return
						}
					}
				}
			}
		}
	}
	pbt.MarkExhaustive("enum-all-t-n")
}

// ---- huge logs (all records identical, so the reference stays tractable up to 2^62 records)

type hugeCase struct {
	Tree bool
	T, N int64
	Mut  mutation
	Mut2 *mutation // optional second mutation of the same tuple
}

func genHugeSize(t *rapid.T, label string) int64 {
	if rapid.IntRange(0, 5).Draw(t, label+"beyond") == 0 {
		// beyond what the provers can index (stored positions overflow above about 2^61): checkers only
		switch rapid.IntRange(0, 3).Draw(t, label+"bk") {
		case 0:
			return []int64{1<<62 + 1, 1<<62 + 1<<61 + 5, 1<<63 - 2, 1<<63 - 1, 1 << 62, 1<<62 - 1, 1<<61 + 1, 1<<62 + 2}[rapid.IntRange(0, 7).Draw(t, label+"bv")]
		case 1:
			return 1<<62 + rapid.Int64Range(0, 1<<62-1).Draw(t, label+"br")
		}
		return 1<<61 + rapid.Int64Range(0, 1<<61).Draw(t, label+"br2")
	}
	k := rapid.IntRange(20, 59).Draw(t, label+"k")
	base := int64(1) << uint(k)
	switch rapid.IntRange(0, 5).Draw(t, label+"shape") {
	case 0:
		return base + int64(rapid.IntRange(0, 6).Draw(t, label+"d")) // just above a power of two
	case 1:
		return base - int64(rapid.IntRange(0, 6).Draw(t, label+"d")) - 1 + 1
	case 2:
		return base + base/2 + int64(rapid.IntRange(0, 5).Draw(t, label+"d"))
	case 3:
		return base + rapid.Int64Range(0, base-1).Draw(t, label+"r")
	case 4:
		return base + int64(1)<<uint(rapid.IntRange(0, k-1).Draw(t, label+"j")) + int64(rapid.IntRange(0, 3).Draw(t, label+"d"))
	}
	return rapid.Int64Range(1, int64(1)<<60).Draw(t, label+"any")
}

func genHuge(t *rapid.T) hugeCase {
	c := hugeCase{Tree: rapid.Bool().Draw(t, "tree"), T: genHugeSize(t, "t")}
	if c.T < 2 {
		c.T = 2
	}
	switch rapid.IntRange(0, 4).Draw(t, "nk") {
	case 0:
		c.N = c.T - 1 - int64(rapid.IntRange(0, 3).Draw(t, "d"))
	case 1:
		c.N = int64(rapid.IntRange(0, 5).Draw(t, "small"))
	case 2:
		// right at the split of the root
		k := int64(1)
		for k <= (c.T-1)/2 {
			k *= 2
		}
		c.N = k + int64(rapid.IntRange(-2, 2).Draw(t, "d"))
	default:
		c.N = rapid.Int64Range(0, c.T-1).Draw(t, "n")
	}
	if c.N < 0 {
		c.N = 0
	}
	if c.N >= c.T {
		c.N = c.T - 1
	}
	if c.Tree && c.N < 1 {
		c.N = 1
	}
	c.Mut = mutation{Op: []string{"none", "none", "flip-proof-bit", "drop", "dup", "index-delta", "t-delta", "flip-root", "flip-leaf", "append"}[rapid.IntRange(0, 9).Draw(t, "op")],
		I: rapid.IntRange(0, 70).Draw(t, "i"), Bit: rapid.IntRange(0, 255).Draw(t, "bit"), Delta: int64(rapid.IntRange(-2, 2).Draw(t, "delta")), T2: 1}
	return c
}

var uniformLog = merkleref.NewUniform([]byte("the same record every time\n"))

func checkHuge(c hugeCase) pbt.Result {
	r := pbt.Result{}
	if c.T < 1 || c.N < 0 || c.N >= c.T && !c.Tree || c.Tree && (c.N < 1 || c.N > c.T) {
		r.Skip = true
		return r
	}
	u := uniformLog
	reader := tlog.HashReaderFunc(func(indexes []int64) ([]tlog.Hash, error) {
		out := make([]tlog.Hash, len(indexes))
		for i, x := range indexes {
			if x < 0 {
				return nil, fmt.Errorf("negative index %d", x)
			}
			out[i] = tlog.Hash(u.StoredAt(x))
		}
		return out, nil
	})
	root := tlog.Hash(u.MTHSize(c.T))
	var proof []tlog.Hash
	var leaf tlog.Hash
	fromRef := func(hs []merkleref.Hash) []tlog.Hash {
		out := make([]tlog.Hash, len(hs))
		for i, h := range hs {
			out[i] = tlog.Hash(h)
		}
		return out
	}
	if c.T > 1<<60 {
		// checkers only, on reference proofs
		r.Classes = append(r.Classes, "beyond the provers' range")
		if c.Tree {
			proof, leaf = fromRef(u.Proof(c.N, c.T)), tlog.Hash(u.MTHSize(c.N))
			if err := tlog.CheckTree(proof, c.T, root, c.N, leaf); err != nil {
				r.Fail = pbt.Failf("complete-tree-huge", "CheckTree rejects the RFC 6962 consistency proof (%d hashes) for t=%d n=%d: %v", len(proof), c.T, c.N, err)
				return r
			}
		} else {
			proof, leaf = fromRef(u.Path(c.N, c.T)), tlog.Hash(u.MTHSize(1))
			if err := tlog.CheckRecord(proof, c.T, root, c.N, leaf); err != nil {
				r.Fail = pbt.Failf("complete-record-huge", "CheckRecord rejects the RFC 6962 audit path (%d hashes) for t=%d n=%d: %v", len(proof), c.T, c.N, err)
				return r
			}
		}
	} else if c.Tree {
		p, err := tlog.ProveTree(c.T, c.N, reader)
		want := u.Proof(c.N, c.T)
		if err != nil || !eqProof(p, want) {
			r.Fail = pbt.Failf("provetree-huge", "ProveTree(%d,%d) on a uniform log: %d hashes, err=%v; RFC 6962 PROOF has %d hashes or differs", c.T, c.N, len(p), err, len(want))
			return r
		}
		proof, leaf = p, tlog.Hash(u.MTHSize(c.N))
		if err := tlog.CheckTree(proof, c.T, root, c.N, leaf); err != nil {
			r.Fail = pbt.Failf("complete-tree-huge", "CheckTree rejects the genuine proof for t=%d n=%d: %v", c.T, c.N, err)
			return r
		}
		if th, err := tlog.TreeHash(c.T, reader); err != nil || th != root {
			r.Fail = pbt.Failf("treehash-huge", "TreeHash(%d) on a uniform log differs from RFC 6962 (%v)", c.T, err)
			return r
		}
	} else {
		p, err := tlog.ProveRecord(c.T, c.N, reader)
		want := u.Path(c.N, c.T)
		if err != nil || !eqProof(p, want) {
			r.Fail = pbt.Failf("proverecord-huge", "ProveRecord(%d,%d) on a uniform log: %d hashes, err=%v; RFC 6962 PATH has %d hashes or differs", c.T, c.N, len(p), err, len(want))
			return r
		}
		proof, leaf = p, tlog.Hash(u.MTHSize(1))
		if err := tlog.CheckRecord(proof, c.T, root, c.N, leaf); err != nil {
			r.Fail = pbt.Failf("complete-record-huge", "CheckRecord rejects the genuine proof for t=%d n=%d: %v", c.T, c.N, err)
			return r
		}
	}
	r.NonTrivial = true
	r.Classes = append(r.Classes, fmt.Sprintf("t~2^%d", bitsLen(c.T)))
	// one mutation, judged by the RFC 9162 verifier
	proof = append([]tlog.Hash(nil), proof...)
	t, n := c.T, c.N
	m := c.Mut
	switch m.Op {
	case "flip-proof-bit":
		if len(proof) > 0 {
			proof[m.I%len(proof)] = flip(proof[m.I%len(proof)], m.Bit)
		}
	case "drop":
		if len(proof) > 0 {
			i := m.I % len(proof)
			proof = append(proof[:i:i], proof[i+1:]...)
		}
	case "dup":
		if len(proof) > 0 {
			i := m.I % len(proof)
			proof = append(proof[:i+1:i+1], proof[i:]...)
		}
	case "append":
		proof = append(proof, flip(root, m.Bit))
	case "index-delta":
		n += m.Delta
	case "t-delta":
		t += m.Delta
	case "flip-root":
		root = flip(root, m.Bit)
	case "flip-leaf":
		leaf = flip(leaf, m.Bit)
	}
	var got error
	var want bool
	if c.Tree {
		got = tlog.CheckTree(proof, t, root, n, leaf)
		want = merkleref.VerifyConsistency(toRef(proof), n, t, merkleref.Hash(leaf), merkleref.Hash(root))
	} else {
		got = tlog.CheckRecord(proof, t, root, n, leaf)
		want = merkleref.VerifyInclusion(toRef(proof), t, merkleref.Hash(root), n, merkleref.Hash(leaf))
	}
	if (got == nil) != want {
		r.Fail = pbt.Failf("soundness-huge", "check (tree=%v, t=%d, n=%d, %d hashes, op=%s) err=%v, RFC 9162 verifier says accept=%v", c.Tree, t, n, len(proof), m.Op, got, want)
	}
	return r
}

func bitsLen(x int64) int {
	n := 0
	for ; x > 0; x >>= 1 {
		n++
	}
	return n
}

func init() {
	subs = append(subs, pbt.New("huge", 15000, 40000, genHuge, checkHuge))
	subs = append(subs, pbt.New("parallel", 60, 400, genParallel, checkParallel))
}

// ---- several logs at once

// Independent logs built and proved at the same time in several goroutines: "for every log" does not stop
// holding because another log is being processed (package-level scratch state would show here, and, in the
// race build of C14, as a data race).
type parallelCase struct {
	Seed    int64
	Workers int
	Records int
}

func genParallel(t *rapid.T) parallelCase {
	return parallelCase{Seed: int64(rapid.IntRange(0, 1000).Draw(t, "seed")), Workers: rapid.IntRange(2, 8).Draw(t, "workers"), Records: rapid.IntRange(2, 24).Draw(t, "records")}
}

func checkParallel(c parallelCase) pbt.Result {
	r := pbt.Result{}
	if c.Workers < 1 || c.Workers > 16 || c.Records < 1 || c.Records > 64 || c.Seed < 0 {
		r.Skip = true
		return r
	}
	r.NonTrivial = c.Workers >= 2 && c.Records >= 3
	fails := make([]*pbt.Failure, c.Workers)
	var wg sync.WaitGroup
	for w := 0; w < c.Workers; w++ {
		wg.Add(1)
		go func(w int) {
			defer wg.Done()
			defer func() {
				if e := recover(); e != nil {
					fails[w] = pbt.Failf("panic-parallel", "worker %d panicked: %v", w, e)
				}
			}()
			seed := c.Seed*31 + int64(w)
			tree := merkleref.NewTree()
			var store []tlog.Hash
			for i := 0; i < c.Records; i++ {
				// large records keep the workers inside the hash function at the same time
				data := append(merkleref.RecordData(seed, int64(i)), bytes.Repeat([]byte{byte(w), byte(i)}, 4096)...)
				tree.Append(data)
				hs, err := tlog.StoredHashes(int64(i), data, tlogutil.Reader(toRef(store)))
				if err != nil {
					fails[w] = pbt.Failf("storedhashes-parallel", "worker %d: StoredHashes(%d): %v", w, i, err)
					return
				}
				store = append(store, hs...)
				if got := tlog.RecordHash(data); merkleref.Hash(got) != merkleref.LeafHash(data) {
					fails[w] = pbt.Failf("leaf-hash-parallel", "worker %d: RecordHash of record %d is not the RFC 6962 leaf hash while %d other logs are being built", w, i, c.Workers-1)
					return
				}
			}
			t := int64(c.Records)
			for n := int64(0); n < t; n++ {
				p, err := tlog.ProveRecord(t, n, tlogutil.Reader(toRef(store)))
				if err != nil || !eqProof(p, tree.Path(n, t)) {
					fails[w] = pbt.Failf("proverecord-parallel", "worker %d: ProveRecord(%d,%d) differs from the RFC 6962 audit path while %d other logs are being built (err=%v)", w, t, n, c.Workers-1, err)
					return
				}
				if err := tlog.CheckRecord(p, t, tlog.Hash(tree.MTH(0, t)), n, tlog.Hash(merkleref.LeafHash(tree.Leaves[n]))); err != nil {
					fails[w] = pbt.Failf("complete-record-parallel", "worker %d: CheckRecord rejects the genuine proof for t=%d n=%d: %v", w, t, n, err)
					return
				}
			}
		}(w)
	}
	wg.Wait()
	for _, f := range fails {
		if f != nil {
			r.Fail = f
			return r
		}
	}
	return r
}
