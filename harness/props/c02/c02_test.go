// Package c02: formatting a go.mod/go.work file preserves its meaning and is idempotent.
package c02

import (
	"fmt"
	"reflect"
	"strings"
	"testing"

	"golang.org/x/mod/modfile"
	"golang.org/x/mod/module"
	"golang.org/x/mod/semver"
	"pgregory.net/rapid"

	"verif/harness/internal/gen"
	"verif/harness/internal/modgen"
	"verif/harness/internal/pbt"
)

func init() {
	pbt.Describe("syntax: 'token soup' texts built line by line from identifiers with arbitrary printable runes, double- and back-quoted strings with escapes, the seven bracket/comma tokens, '(' at end of line, empty blocks '( )', stray and nested parens, whole-line and end-of-line comments, blank lines, CRLF, missing final newline, unknown block types, plus hostile fragments and 0-2 byte mutations; for every text the syntax-only parser (hook VerifParseSyntax) accepts: parse -> Format -> parse must succeed with the same flattened statements/tokens/comment texts (LineBlock.Suffix folded into RParen.Suffix, comment text TrimSpace'd, blank-line placeholders dropped) and Format must be byte-idempotent. directives: well-formed go.mod and go.work texts from the modgen grammar (line and block forms, quoted and bare tokens, paths that need quoting, comments before/after/suffix, blank lines, CRLF, indirect markers with and without trailing text, retract intervals, replace forms) parsed strictly with fix in {nil, canonicaliser, symbolic->pseudo-version}: directive values before == after formatting. Non-trivial: accepted by the parser and containing at least one of: a block, a quoted token, a comment, CRLF. Distinct by JSON rendering. (Shortened and +meta versions, which the strict parser canonicalises, are generated with and without a fixer.)",
		"comment attachment is compared after folding LineBlock.Suffix into RParen.Suffix (a comment after a one-line empty block 'x ( ) // c' moves from the block to its ')' because the printed form spans two lines)",
		"paths non-empty and not a lone bracket/comma, versions valid (the property's hedge)")
}

func TestMain(m *testing.M) { pbt.Main(m) }

// ---------------------------------------------------------------------------
// Part A: syntax layer

type soupCase struct{ Text string }

var identParts = []string{"a", "b", "require", "module", "go", "x.y/z", "v1.2.3", "=>", "=", "é", "日本", "-", "+incompatible", "1.21", "k=v", "@", "!", "~", "*", "a\"b", "it's", "`", "//", "/", "/*", "*/", "\\", "#", "%", ";", ":"}
var stringToks = []string{`"a"`, `""`, `"a b"`, `"a\"b"`, `"\\"`, `"a\nb"`, `"é"`, "`raw`", "``", "`a\"b`", "`a\\`", `"a//b"`, `"("`, `"// not a comment"`, `"a b\x5c"`, `"dir\u005c"`, `"x y\134"`, `"a\\\\"`, `"a b\\"`, `"\x00"`, `"`, "`", `"unterminated`, "`unterminated", `"a\`}
var punct = []string{"(", ")", "[", "]", "{", "}", ","}
var commentToks = []string{"// c", "//", "//c", "// a // b", "//  spaced  ", "// é", "// \t", "///", "// )", "// (", "// \"", "//\r"}

func genToken(t *rapid.T) string {
	k := rapid.IntRange(0, 99).Draw(t, "tk")
	switch {
	case k < 45:
		n := rapid.IntRange(1, 3).Draw(t, "np")
		s := ""
		for i := 0; i < n; i++ {
			s += identParts[rapid.IntRange(0, len(identParts)-1).Draw(t, "ip")]
		}
		return s
	case k < 65:
		return stringToks[rapid.IntRange(0, len(stringToks)-1).Draw(t, "st")]
	case k < 90:
		return punct[rapid.IntRange(0, len(punct)-1).Draw(t, "pu")]
	case k < 94:
		return rapid.StringN(1, 4, 8).Draw(t, "arbtok")
	case k < 95:
		return strings.Repeat("long", rapid.IntRange(100, 2000).Draw(t, "toklen"))
	}
	return []string{"\x00", "\xff", "\r", "\t", " ", " ", "\v"}[rapid.IntRange(0, 6).Draw(t, "bad")]
}

func genSoupLine(t *rapid.T) string {
	k := rapid.IntRange(0, 99).Draw(t, "lk")
	ws := []string{" ", " ", " ", "\t", "  ", ""}
	sep := func() string { return ws[rapid.IntRange(0, len(ws)-1).Draw(t, "ws")] }
	switch {
	case k < 10:
		return ""
	case k < 22:
		return sep() + commentToks[rapid.IntRange(0, len(commentToks)-1).Draw(t, "ct")]
	case k < 34:
		// block opener
		n := rapid.IntRange(1, 2).Draw(t, "nhead")
		s := ""
		for i := 0; i < n; i++ {
			s += genToken(t) + " "
		}
		s += "("
		if rapid.IntRange(0, 3).Draw(t, "oc") == 0 {
			s += " " + commentToks[rapid.IntRange(0, len(commentToks)-1).Draw(t, "ct")]
		}
		return s
	case k < 46:
		s := sep() + ")"
		if rapid.IntRange(0, 3).Draw(t, "cc") == 0 {
			s += " " + commentToks[rapid.IntRange(0, len(commentToks)-1).Draw(t, "ct")]
		}
		return s
	case k < 52:
		// empty block on one line
		s := genToken(t) + sep() + "(" + sep() + ")"
		if rapid.IntRange(0, 2).Draw(t, "ec") == 0 {
			s += " " + commentToks[rapid.IntRange(0, len(commentToks)-1).Draw(t, "ct")]
		}
		return s
	}
	n := rapid.IntRange(1, 6).Draw(t, "ntok")
	s := sep()
	for i := 0; i < n; i++ {
		if i > 0 {
			s += sep()
		}
		s += genToken(t)
	}
	if rapid.IntRange(0, 3).Draw(t, "sc") == 0 {
		s += sep() + commentToks[rapid.IntRange(0, len(commentToks)-1).Draw(t, "ct")]
	}
	return s
}

func genSoup(t *rapid.T) soupCase {
	n := rapid.IntRange(0, 10).Draw(t, "nlines")
	if gen.Chance(t, 2, "manylines") {
		n = rapid.IntRange(60, 200).Draw(t, "nlines2")
	}
	nl := "\n"
	if gen.Chance(t, 12, "crlf") {
		nl = "\r\n"
	}
	var sb strings.Builder
	for i := 0; i < n; i++ {
		sb.WriteString(genSoupLine(t))
		if i < n-1 || !gen.Chance(t, 15, "nofinal") {
			if gen.Chance(t, 5, "mixednl") {
				sb.WriteString("\n")
			} else {
				sb.WriteString(nl)
			}
		}
	}
	s := sb.String()
	switch rapid.IntRange(0, 9).Draw(t, "mut") {
	case 0:
		s = gen.MutateString(t, s, 1, []string{"(", ")", "\n", "\"", "`", "//", "/*", "\r", " ", ",", "\\", "\x00"})
	case 1:
		s = gen.MutateString(t, s, 2, []string{"(", ")", "\n", "\"", "`", "//", "/*", "\r", " ", ",", "\\", "\x00"})
	}
	return soupCase{s}
}

type item struct {
	Where string
	Text  []string
}

func flatComments(where string, cs []modfile.Comment, out *[]item) {
	for _, c := range cs {
		txt := strings.TrimSpace(c.Token)
		if txt == "" {
			continue // blank-line placeholder
		}
		*out = append(*out, item{where, []string{txt}})
	}
}

// flatten is the document-order rendering compared before and after formatting.
func flatten(f *modfile.FileSyntax) []item {
	var out []item
	flatComments("file.before", f.Before, &out)
	for i, st := range f.Stmt {
		p := fmt.Sprintf("stmt%d", i)
		switch x := st.(type) {
		case *modfile.CommentBlock:
			flatComments(p+".commentblock", x.Before, &out)
			flatComments(p+".commentblock.suffix", x.Suffix, &out)
			flatComments(p+".commentblock.after", x.After, &out)
		case *modfile.Line:
			flatComments(p+".before", x.Before, &out)
			out = append(out, item{p + ".line", x.Token})
			flatComments(p+".suffix", x.Suffix, &out)
			flatComments(p+".after", x.After, &out)
		case *modfile.LineBlock:
			flatComments(p+".before", x.Before, &out)
			out = append(out, item{p + ".block", x.Token})
			flatComments(p+".lparen.before", x.LParen.Before, &out)
			flatComments(p+".lparen.suffix", x.LParen.Suffix, &out)
			for j, l := range x.Line {
				q := fmt.Sprintf("%s.line%d", p, j)
				flatComments(q+".before", l.Before, &out)
				out = append(out, item{q, l.Token})
				flatComments(q+".suffix", l.Suffix, &out)
				flatComments(q+".after", l.After, &out)
			}
			flatComments(p+".rparen.before", x.RParen.Before, &out)
			// fold: the block's own suffix comments are printed after ")" and re-attach there
			flatComments(p+".rparen.suffix", x.RParen.Suffix, &out)
			flatComments(p+".rparen.suffix", x.Suffix, &out)
			flatComments(p+".after", x.After, &out)
		}
	}
	flatComments("file.after", f.After, &out)
	return out
}

func interesting(text string) bool {
	return strings.Contains(text, "(") || strings.Contains(text, "\"") || strings.Contains(text, "`") || strings.Contains(text, "//") || strings.Contains(text, "\r\n")
}

func checkSoup(c soupCase) pbt.Result {
	r := pbt.Result{}
	s1, err := modfile.VerifParseSyntax("go.mod", []byte(c.Text))
	if err != nil {
		r.Classes = []string{"rejected"}
		return r
	}
	r.Classes = []string{"accepted"}
	r.NonTrivial = interesting(c.Text) && len(s1.Stmt) > 0
	f1 := flatten(s1)
	o1 := modfile.Format(s1)
	s2, err := modfile.VerifParseSyntax("go.mod", o1)
	if err != nil {
		r.Fail = pbt.Failf("reparse-failed", "input %q parses, but its formatting %q does not: %v", c.Text, o1, err)
		return r
	}
	f2 := flatten(s2)
	if !reflect.DeepEqual(f1, f2) {
		r.Fail = pbt.Failf("meaning-changed", "input %q\nformatted %q\nbefore: %v\nafter:  %v", c.Text, o1, f1, f2)
		return r
	}
	o2 := modfile.Format(s2)
	if string(o1) != string(o2) {
		r.Fail = pbt.Failf("not-idempotent", "input %q\nfirst format  %q\nsecond format %q", c.Text, o1, o2)
		return r
	}
	// formatting the same tree twice gives the same bytes (Format must not consume the tree)
	if again := modfile.Format(s1); string(again) != string(o1) {
		r.Fail = pbt.Failf("format-not-pure", "formatting the same syntax tree twice differs: %q vs %q", o1, again)
	}
	return r
}

// ---------------------------------------------------------------------------
// Part B: directive layer

type dirCase struct {
	File modgen.File
	Fix  string // "nil", "canonical", "symbolic"
}

func genDir(t *rapid.T) dirCase {
	fix := []string{"nil", "nil", "canonical", "symbolic"}[rapid.IntRange(0, 3).Draw(t, "fix")]
	o := modgen.Options{Work: rapid.IntRange(0, 3).Draw(t, "work") == 0, OddPaths: true, Loose: fix != "nil" || gen.Chance(t, 40, "loosenofixer")}
	return dirCase{modgen.Gen(t, o), fix}
}

func canonicalFix(path, vers string) (string, error) {
	cv := module.CanonicalVersion(vers)
	if cv == "" {
		return "", fmt.Errorf("bad version %q", vers)
	}
	return cv, nil
}

// symbolicFix maps branch-like names to a pseudo-version and canonicalises the rest; idempotent.
func symbolicFix(path, vers string) (string, error) {
	if !semver.IsValid(vers) {
		return "", fmt.Errorf("unknown revision %q", vers)
	}
	_, major, _ := module.SplitPathVersion(path)
	cv := module.CanonicalVersion(vers)
	if strings.Count(vers, ".") < 2 && !strings.Contains(vers, "-") {
		// a shortened version is treated like a branch name
		m := strings.TrimSuffix(strings.TrimLeft(major, "/."), "-unstable")
		if m == "" {
			m = semver.Major(vers)
		}
		return m + ".0.0-20200101000000-0123456789ab", nil
	}
	return cv, nil
}

func fixer(name string) modfile.VersionFixer {
	switch name {
	case "canonical":
		return canonicalFix
	case "symbolic":
		return symbolicFix
	}
	return nil
}

type values struct {
	Module, Deprecated, Go, Toolchain string
	Godebug                           [][2]string
	Require                           []string
	Exclude                           []string
	Replace                           []string
	Retract                           []string
	Tool                              []string
	Use                               []string
}

func modValues(f *modfile.File) values {
	var v values
	if f.Module != nil {
		v.Module, v.Deprecated = "module:"+f.Module.Mod.Path+"@"+f.Module.Mod.Version, f.Module.Deprecated
	}
	if f.Go != nil {
		v.Go = "go:" + f.Go.Version
	}
	if f.Toolchain != nil {
		v.Toolchain = "toolchain:" + f.Toolchain.Name
	}
	for _, g := range f.Godebug {
		v.Godebug = append(v.Godebug, [2]string{g.Key, g.Value})
	}
	for _, r := range f.Require {
		v.Require = append(v.Require, fmt.Sprintf("%q %q indirect=%v", r.Mod.Path, r.Mod.Version, r.Indirect))
	}
	for _, x := range f.Exclude {
		v.Exclude = append(v.Exclude, fmt.Sprintf("%q %q", x.Mod.Path, x.Mod.Version))
	}
	for _, x := range f.Replace {
		v.Replace = append(v.Replace, fmt.Sprintf("%q %q => %q %q", x.Old.Path, x.Old.Version, x.New.Path, x.New.Version))
	}
	for _, x := range f.Retract {
		v.Retract = append(v.Retract, fmt.Sprintf("[%q,%q] %q", x.Low, x.High, x.Rationale))
	}
	for _, x := range f.Tool {
		v.Tool = append(v.Tool, x.Path)
	}
	return v
}

func workValues(f *modfile.WorkFile) values {
	var v values
	if f.Go != nil {
		v.Go = "go:" + f.Go.Version
	}
	if f.Toolchain != nil {
		v.Toolchain = "toolchain:" + f.Toolchain.Name
	}
	for _, g := range f.Godebug {
		v.Godebug = append(v.Godebug, [2]string{g.Key, g.Value})
	}
	for _, x := range f.Use {
		v.Use = append(v.Use, x.Path)
	}
	for _, x := range f.Replace {
		v.Replace = append(v.Replace, fmt.Sprintf("%q %q => %q %q", x.Old.Path, x.Old.Version, x.New.Path, x.New.Version))
	}
	return v
}

func parseValues(work bool, text []byte, fix modfile.VersionFixer) (values, *modfile.FileSyntax, error) {
	if work {
		f, err := modfile.ParseWork("go.work", text, fix)
		if err != nil {
			return values{}, nil, err
		}
		return workValues(f), f.Syntax, nil
	}
	f, err := modfile.Parse("go.mod", text, fix)
	if err != nil {
		return values{}, nil, err
	}
	return modValues(f), f.Syntax, nil
}

func checkDir(c dirCase) pbt.Result {
	r := pbt.Result{}
	text := c.File.Render()
	fix := fixer(c.Fix)
	v1, syn, err := parseValues(c.File.Work, []byte(text), fix)
	if err != nil {
		// the generator builds well-formed files; a rejection is outside the property's domain
		// only if the grammar produced something the strict parser documents as an error
		// (repeated go/toolchain/module cannot happen by construction).
		r.Fail = pbt.Failf("wellformed-rejected", "strict parser rejects a well-formed file (fix=%s): %v\n%s", c.Fix, err, text)
		return r
	}
	r.NonTrivial = interesting(text)
	r.Classes = []string{fmt.Sprintf("work=%v fix=%s", c.File.Work, c.Fix)}
	out := modfile.Format(syn)
	v2, syn2, err := parseValues(c.File.Work, out, fix)
	if err != nil {
		r.Fail = pbt.Failf("formatted-rejected", "formatted output no longer parses (fix=%s): %v\ninput:\n%s\noutput:\n%s", c.Fix, err, text, out)
		return r
	}
	if !reflect.DeepEqual(v1, v2) {
		r.Fail = pbt.Failf("values-changed", "directive values differ after formatting (fix=%s)\ninput:\n%s\noutput:\n%s\nbefore: %+v\nafter:  %+v", c.Fix, text, out, v1, v2)
		return r
	}
	if out2 := modfile.Format(syn2); string(out2) != string(out) {
		r.Fail = pbt.Failf("not-idempotent", "formatting twice differs\nfirst:\n%s\nsecond:\n%s", out, out2)
		return r
	}
	// after a fixer ran, the output needs no fixer any more
	if c.Fix != "nil" {
		v3, _, err := parseValues(c.File.Work, out, nil)
		if err != nil || !reflect.DeepEqual(v3, v1) {
			r.Fail = pbt.Failf("fixed-not-canonical", "output of a parse with the %s fixer is not accepted unchanged without a fixer: %v\n%s", c.Fix, err, out)
		}
	}
	return r
}

var subs = []pbt.Sub{
	pbt.New("syntax", 50000, 150000, genSoup, checkSoup),
	pbt.New("directives", 20000, 60000, genDir, checkDir),
}

func TestGen(t *testing.T)    { pbt.RunAll(t, subs) }
func TestReplay(t *testing.T) { pbt.Replay(t, subs) }

func FuzzSyntax(f *testing.F) {
	for _, s := range []string{"module x\n\nrequire (\n\ta v1.0.0 // indirect\n)\n", "x ( ) // c\n", "a (b\n", "// c\nx y // z\n", "x (\n\n// c\n)\n"} {
		f.Add([]byte(s))
	}
	f.Fuzz(func(t *testing.T, b []byte) {
		c := soupCase{string(b)}
		res := checkSoup(c)
		pbt.Count("fuzz-syntax", c, res)
		if res.Fail != nil {
			pbt.ReportFuzz(t, "syntax", c, res.Fail)
		}
	})
}
