// Package c16: bulk requirement and use setters produce exactly the requested set.
package c16

import (
	"fmt"
	"regexp"
	"sort"
	"strings"
	"testing"

	"golang.org/x/mod/modfile"
	"pgregory.net/rapid"

	"verif/harness/internal/gen"
	"verif/harness/internal/modedit"
	"verif/harness/internal/modgen"
	"verif/harness/internal/pbt"
	"verif/harness/internal/ref/semverref"
)

func init() {
	pbt.Describe("set: start files heavy in what the setters must cope with (the same path required 2-3 times across lines and blocks, blocks with and without their own comments, unique marker comments on every line, blank-line separators, '// indirect' and '// indirect; text', exclude/retract blocks in random order with go <1.21 / >=1.21 / absent / non-semver go versions) x one of SetRequire, SetRequireSeparateIndirect (go.mod) or SetUse (go.work) with a requested list of distinct paths that partly overlaps the file, with changed versions and flipped indirect flags; Cleanup before and after. Oracle: re-parsed require/use multiset == requested list exactly, in-memory list agrees; every block of the output is sorted under the documented comparator re-implemented here (token-lexical; exclude by path then semantic version from go 1.21; retract descending by low then high); every kept line still has its leading marker and its end-of-line comment is exactly its marker with or without the indirect prefix as requested. separate: files whose only requirement statement is one line or one block with no comments other than indirect markers: after SetRequireSeparateIndirect no require statement mixes direct and indirect requirements. Non-trivial: the start file had a duplicate path or >=2 require/use statements and the request both drops and adds something. Distinct by JSON rendering. history: the setter is the last of 2-5 operations of one session (setters, AddRequire, AddNewRequire, DropRequire, AddExclude, AddReplace, DropReplace, Cleanup, SortBlocks; go.work: SetUse, AddUse, AddNewUse, DropUse), each generated against what the earlier ones left; same oracle, the comment clause skips lines an earlier operation rewrote. A quarter of the start lines carry no leading comment and a fifth no end-of-line comment; the comments a kept line must carry are taken from the start file. Half of the set and separate cases apply the setter to the file as parsed (no Cleanup first: in a freshly parsed file nothing is pending, and Cleanup would already remove empty blocks and unfold one-line blocks); the one require statement of a separate case may be a block with nothing in it.",
		"the documented comparators are re-implemented with the independent semver model", "Cleanup is called before and after the setter (the property's hedge)")
}

func TestMain(m *testing.M) { pbt.Main(m) }

var setters = []string{"SetRequire", "SetRequireSeparateIndirect"}

func genSet(t *rapid.T) modedit.Case {
	work := rapid.IntRange(0, 3).Draw(t, "work") == 0
	names := setters
	if work {
		names = []string{"SetUse"}
	}
	c := modedit.GenCase(t, work, 1, names)
	if len(c.Ops) == 2 && c.Ops[0].Name == "Cleanup" && rapid.Bool().Draw(t, "nopreclean") {
		// the setter applied to the file as parsed: nothing is pending in a freshly parsed file, and Cleanup first would
		// already remove empty blocks and unfold one-line blocks
		c.Ops = c.Ops[1:]
	}
	return c
}

// genHistory: the setter is the last of several edits of one session. Two setters in a row (the first turns a
// line into a block or moves lines between blocks, the second moves them again) and setters after additions
// and removals are the sequences the go command itself runs.
func genHistory(t *rapid.T) modedit.Case {
	work := rapid.IntRange(0, 3).Draw(t, "work") == 0
	names := []string{"SetRequire", "SetRequireSeparateIndirect", "SetRequire", "SetRequireSeparateIndirect", "AddRequire", "AddNewRequire", "DropRequire", "Cleanup", "SortBlocks", "AddExclude", "AddReplace", "DropReplace"}
	last := setters
	if work {
		names = []string{"SetUse", "SetUse", "AddUse", "AddNewUse", "DropUse", "Cleanup", "SortBlocks", "AddReplace", "DropReplace"}
		last = []string{"SetUse"}
	}
	return modedit.GenCaseThen(t, work, rapid.IntRange(1, 4).Draw(t, "nbefore"), names, last)
}

var word = regexp.MustCompile(`[A-Za-z0-9]+`)

func hasWord(texts []string, w string) bool {
	for _, t := range texts {
		for _, x := range word.FindAllString(t, -1) {
			if x == w {
				return true
			}
		}
	}
	return false
}

func tokenLess(a, b []string) bool {
	for k := 0; k < len(a) && k < len(b); k++ {
		if a[k] != b[k] {
			return a[k] < b[k]
		}
	}
	return len(a) < len(b)
}

func interval(tok []string) (string, string) {
	switch {
	case len(tok) == 1:
		return tok[0], tok[0]
	case len(tok) == 5 && tok[0] == "[" && tok[2] == "," && tok[4] == "]":
		return tok[1], tok[3]
	}
	return "", ""
}

// less is the documented order of lines within a block of the given verb.
func less(verb string, semanticExclude bool, a, b []string) bool {
	switch {
	case verb == "exclude" && semanticExclude && len(a) == 2 && len(b) == 2:
		if a[0] != b[0] {
			return a[0] < b[0]
		}
		return semverref.Compare(a[1], b[1]) < 0
	case verb == "retract":
		al, ah := interval(a)
		bl, bh := interval(b)
		if c := semverref.Compare(al, bl); c != 0 {
			return c > 0
		}
		return semverref.Compare(ah, bh) > 0
	}
	return tokenLess(a, b)
}

func checkBlocksSorted(fs *modfile.FileSyntax, goVersion string, work bool) *pbt.Failure {
	semantic := !work && goVersion != "" && semverref.Compare("v"+goVersion, "v1.21") >= 0
	for _, st := range fs.Stmt {
		b, ok := st.(*modfile.LineBlock)
		if !ok {
			continue
		}
		for i := 0; i+1 < len(b.Line); i++ {
			if less(b.Token[0], semantic, b.Line[i+1].Token, b.Line[i].Token) {
				return pbt.Failf("block-order", "%s block is not in its documented order (go %q): %q before %q", b.Token[0], goVersion, b.Line[i].Token, b.Line[i+1].Token)
			}
		}
	}
	return nil
}

func check(c modedit.Case) pbt.Result {
	r := pbt.Result{}
	if !modedit.OKCase(c) || len(c.Ops) == 0 {
		r.Skip = true
		return r
	}
	setter := c.Ops[len(c.Ops)-1]
	switch setter.Name {
	case "SetRequire", "SetRequireSeparateIndirect", "SetUse":
	default:
		r.Skip = true
		return r
	}
	verb := "require"
	if setter.Name == "SetUse" {
		verb = "use"
	}
	start := modedit.FromSpec(c.Start)
	out, fail := modedit.Run(c)
	if fail != nil {
		r.Fail = fail
		r.NonTrivial = true
		return r
	}
	r.Classes = []string{setter.Name}
	// requested list
	var want []string
	wantPaths := map[string]bool{}
	switch verb {
	case "require":
		for _, q := range setter.Reqs {
			if wantPaths[q.Path] {
				continue // the same requirement listed again: still one directive per path
			}
			want = append(want, modedit.Entry{Verb: "require", Args: []string{q.Path, q.Version}, Indirect: q.Indirect}.Canon())
			wantPaths[q.Path] = true
		}
	default:
		for _, d := range setter.Dirs {
			want = append(want, modedit.Entry{Verb: "use", Args: []string{d}}.Canon())
			wantPaths[d] = true
		}
	}
	sort.Strings(want)
	// non-trivial classification
	stmts, dup, drops, adds := 0, false, false, false
	seen := map[string]bool{}
	for _, s := range c.Start.Stmts {
		if s.Verb == verb {
			stmts++
		}
	}
	for _, e := range start.ByVerb(verb) {
		if seen[e.Args[0]] {
			dup = true
		}
		seen[e.Args[0]] = true
		if !wantPaths[e.Args[0]] {
			drops = true
		}
	}
	for p := range wantPaths {
		if !seen[p] {
			adds = true
		}
	}
	r.NonTrivial = (dup || stmts >= 2) && drops && adds
	if dup {
		r.Classes = append(r.Classes, "start has duplicate path")
	}

	got := modedit.MultisetOf(out.Reparsed, verb)
	if fmt.Sprint(got) != fmt.Sprint(want) {
		r.Fail = pbt.Failf("not-exact-set", "after %s the file has %s directives %q, requested exactly %q\nstart:\n%s\noutput:\n%s", setter.Name, verb, got, want, c.Start.Render(), out.Text)
		return r
	}
	if mem := modedit.MultisetOf(out.Mem, verb); fmt.Sprint(mem) != fmt.Sprint(want) {
		r.Fail = pbt.Failf("memory-not-exact-set", "after %s the in-memory %s list is %q, requested exactly %q\nstart:\n%s", setter.Name, verb, mem, want, c.Start.Render())
		return r
	}
	goVersion := ""
	for _, e := range out.Model.ByVerb("go") {
		goVersion = e.Args[0]
	}
	if f := checkBlocksSorted(out.Syntax, goVersion, c.Start.Work); f != nil {
		f.Msg += fmt.Sprintf("\nstart:\n%s\noutput:\n%s", c.Start.Render(), out.Text)
		r.Fail = f
		return r
	}
	// kept lines keep their comments; the end-of-line comment changes only by the indirect marker
	for _, e := range out.Model.ByVerb(verb) {
		if e.ID == 0 || e.Touched && len(c.Ops) > 2 {
			continue // (in a history, a line an earlier operation rewrote is that operation's business)
		}
		src, _ := c.Start.LineOf(e.ID)
		b, s := strings.Join(src.Before, " "), src.Suffix // (some lines are bare: nothing above, nothing after)
		wantSuffix := s
		if e.Indirect {
			wantSuffix = strings.TrimSuffix("indirect; "+s, "; ")
		}
		found := false
		var seenSuffix []string
		for _, d := range out.Reparsed {
			carries := d.Verb == e.Verb && d.Canon == e.Canon()
			for _, m := range src.Before {
				carries = carries && hasWord(d.Before, m)
			}
			if carries {
				seenSuffix = d.Suffix
				if len(d.Suffix) == 1 && strings.Join(strings.Fields(d.Suffix[0]), " ") == strings.Join(strings.Fields(wantSuffix), " ") || len(d.Suffix) == 0 && wantSuffix == "" {
					found = true // (compared up to runs of blanks: the marker may be spelled with other spacing)
				}
			}
		}
		if !found {
			r.Fail = pbt.Failf("kept-line-comments", "after %s the kept line %s (source line %d) should carry leading comment %s and end-of-line comment %q; end-of-line comments found: %q\nstart:\n%s\noutput:\n%s", setter.Name, e.Canon(), e.ID, b, wantSuffix, seenSuffix, c.Start.Render(), out.Text)
			return r
		}
	}
	// all other directive kinds are untouched (except the documented de-duplication)
	for _, v := range modedit.Verbs(c.Start.Work) {
		if v == verb {
			continue
		}
		if g, w := modedit.MultisetOf(out.Reparsed, v), out.Model.Multiset(v); fmt.Sprint(g) != fmt.Sprint(w) {
			r.Fail = pbt.Failf("other-directives-changed", "after %s the %s directives are %q, expected %q\nstart:\n%s\noutput:\n%s", setter.Name, v, g, w, c.Start.Render(), out.Text)
			return r
		}
	}
	return r
}

// ---- separate-indirect on a single uncommented requirement statement

type sepCase struct {
	Start      modgen.File
	Reqs       []modedit.Req
	NoPreClean bool `json:",omitempty"` // the setter is applied to the file as parsed (Cleanup first would already remove an empty block and unfold a one-line block)
}

func genSep(t *rapid.T) sepCase {
	f := modgen.Gen(t, modgen.Options{NoComments: true, DupHeavy: rapid.Bool().Draw(t, "dup")})
	// keep only one require statement
	var keep []modgen.Stmt
	have := false
	for _, s := range f.Stmts {
		if s.Verb == "require" {
			if have {
				continue
			}
			have = true // (possibly a block with nothing in it: the degenerate "one uncommented block")
			for i := range s.Lines {
				s.Lines[i].Blank = false // blank lines are fine, but keep the statement "flat"
			}
		}
		keep = append(keep, s)
	}
	f.Stmts = keep
	f.After = nil
	c := sepCase{Start: f, NoPreClean: rapid.Bool().Draw(t, "nopreclean")}
	seen := map[string]bool{}
	for _, d := range f.All() {
		if d.Verb == "require" && !seen[d.Args[0]] && rapid.IntRange(0, 3).Draw(t, "keep") != 0 {
			seen[d.Args[0]] = true
			ind := d.Indirect
			if rapid.IntRange(0, 2).Draw(t, "flip") == 0 {
				ind = !ind
			}
			c.Reqs = append(c.Reqs, modedit.Req{Path: d.Args[0], Version: d.Args[1], Indirect: ind})
		}
	}
	n := rapid.IntRange(0, 4).Draw(t, "nnew")
	for i := 0; i < n; i++ {
		mp := modgen.Mods[gen.Uniform(t, len(modgen.Mods), "mod")]
		if !seen[mp.Path] {
			seen[mp.Path] = true
			c.Reqs = append(c.Reqs, modedit.Req{Path: mp.Path, Version: mp.Versions[0], Indirect: rapid.Bool().Draw(t, "ind")})
		}
	}
	return c
}

func checkSep(c sepCase) pbt.Result {
	r := pbt.Result{}
	nreq := 0
	for _, s := range c.Start.Stmts {
		if s.Verb == "require" {
			nreq++
			if len(s.Before) > 0 || s.LParenSuffix != "" || len(s.RParenBefore) > 0 || s.RParenSuffix != "" {
				r.Skip = true
				return r
			}
			for _, d := range s.Lines {
				if len(d.Before) > 0 || d.Suffix != "" {
					r.Skip = true
					return r
				}
			}
		}
	}
	if nreq != 1 {
		r.Skip = true
		r.Classes = []string{fmt.Sprintf("skipped: %d require statements", nreq)}
		return r
	}
	seenP := map[string]bool{}
	for _, q := range c.Reqs {
		if seenP[q.Path] {
			r.Skip = true
			return r
		}
		seenP[q.Path] = true
	}
	mc := modedit.Case{Start: c.Start, Ops: []modedit.Op{{Name: "Cleanup"}, {Name: "SetRequireSeparateIndirect", Reqs: c.Reqs}}}
	if c.NoPreClean {
		mc.Ops = mc.Ops[1:]
		r.Classes = append(r.Classes, "setter applied to the file as parsed")
	}
	out, fail := modedit.Run(mc)
	if fail != nil {
		r.Fail = fail
		return r
	}
	nd, ni := 0, 0
	for _, q := range c.Reqs {
		if q.Indirect {
			ni++
		} else {
			nd++
		}
	}
	r.NonTrivial = nd > 0 && ni > 0
	// every require statement of the output is all-direct or all-indirect
	for _, st := range out.Syntax.Stmt {
		var lines []*modfile.Line
		switch x := st.(type) {
		case *modfile.Line:
			if len(x.Token) > 0 && x.Token[0] == "require" {
				lines = []*modfile.Line{x}
			}
		case *modfile.LineBlock:
			if x.Token[0] == "require" {
				lines = x.Line
			}
		}
		d, i := 0, 0
		for _, l := range lines {
			ind := false
			for _, s := range l.Suffix {
				txt := strings.TrimSpace(strings.TrimPrefix(s.Token, "//"))
				if txt == "indirect" || strings.HasPrefix(txt, "indirect;") {
					ind = true
				}
			}
			if ind {
				i++
			} else {
				d++
			}
		}
		if d > 0 && i > 0 {
			r.Fail = pbt.Failf("mixed-block", "after SetRequireSeparateIndirect on a file with one uncommented requirement statement, a require statement mixes %d direct and %d indirect requirements\nstart:\n%s\noutput:\n%s", d, i, c.Start.Render(), out.Text)
			return r
		}
	}
	// and the set is exact
	var want []string
	for _, q := range c.Reqs {
		want = append(want, modedit.Entry{Verb: "require", Args: []string{q.Path, q.Version}, Indirect: q.Indirect}.Canon())
	}
	sort.Strings(want)
	if got := modedit.MultisetOf(out.Reparsed, "require"); fmt.Sprint(got) != fmt.Sprint(want) {
		r.Fail = pbt.Failf("not-exact-set", "requested %q, file has %q\nstart:\n%s\noutput:\n%s", want, got, c.Start.Render(), out.Text)
	}
	return r
}

var subs = []pbt.Sub{
	pbt.New("set", 10000, 30000, genSet, check),
	pbt.New("history", 5000, 20000, genHistory, check),
	pbt.New("separate", 5000, 15000, genSep, checkSep),
}

func TestGen(t *testing.T)    { pbt.RunAll(t, subs) }
func TestReplay(t *testing.T) { pbt.Replay(t, subs) }
