// Package c12: extraction enforces every zip restriction and never writes outside its directory.
package c12

import (
	"archive/zip"
	"bytes"
	"fmt"
	"hash/crc32"
	"io"
	"os"
	"path/filepath"
	"sort"
	"strings"
	"testing"

	"golang.org/x/mod/module"
	modzip "golang.org/x/mod/zip"
	"pgregory.net/rapid"

	"verif/harness/internal/gen"
	"verif/harness/internal/pbt"
	"verif/harness/internal/ref/pathref"
	"verif/harness/internal/ref/semverref"
	"verif/harness/internal/ref/zipref"
)

func init() {
	pbt.Describe("cases = a module id (mostly valid) x a raw zip archive written by the harness with archive/zip CreateRaw/CreateHeader so that names and declared sizes are arbitrary: prefix exact / missing / case-varied / other version / without slash; names with '..' (up to three levels), leading '/', backslashes, empty, '.', trailing '/', '//' , reserved and Unicode elements, fold-colliding pairs across directories, go.mod in every case at the root and below, duplicates, directory entries (also duplicated, also clashing with files); declared sizes that differ from the content (shorter, longer), wrong CRC, declared sizes above 16 MiB for go.mod/LICENSE and totals above 500 MiB (header lies, tiny bodies) x a target directory that is absent, empty, non-empty or nested under missing parents. Every case runs in a fresh sandbox S/p1/p2/p3/P with the zip in P and the target below P. Oracle: CheckZip's valid/invalid lists and error == the reference entry classifier; Unzip succeeds iff the id is valid, CheckZip accepts, the target is absent or empty and every file entry reads back with its declared size and CRC (read by the harness through archive/zip); on success the extracted tree == the file entries (names minus prefix, contents), both inclusions; a non-empty target is refused and untouched; in every case nothing exists in S outside the target directory except the zip and the target's ancestors. Non-trivial: >=2 entries with the right prefix and (an entry rejected by a rule other than the prefix, or a lying size/CRC); or a successful extraction of >=2 files. Distinct by JSON rendering. 12% of the archives also carry, anywhere in their order, an entry named after another entry plus a work-file suffix (.tmp, ~, .bak, .part, .new, .lock, ...; as a file or a directory).",
		"zipref entry classifier; archive/zip of the standard library decides whether an entry 'reads back with its declared size and CRC'", "'..' runs in names are at most three levels deep, so even a broken extractor stays inside the sandbox")
}

func TestMain(m *testing.M) { pbt.Main(m) }

type entry struct {
	Name     string
	Content  []byte
	DeclSize int64 // -1 = honest
	Over63   bool  // the declared size has bit 63 set (zip64 sizes are unsigned)
	BadCRC   bool
	Deflate  bool // honest entries only
	DirMode  bool // the header carries directory mode bits (whatever the name says)
}

type unzipCase struct {
	Path, Version string
	Entries       []entry
	Target        string // absent | empty | nonempty | nested
}

var goodNames = []string{"x.go", "y.go", "go.mod", "LICENSE", "README.md", "a/x.go", "a/b/y.go", "a/b/c/z.go", "vendor/x/y.go", "é.go", "a b.txt", ".hidden", "cmd/tool/main.go", "z", "sub/x.go", "deep/er/still/f.go",
	// sibling directories whose names are string prefixes of one another (in any zip order)
	"cmd-tools/x.go", "cmd/main.go", "cmd.old/y.go", "a.b/f.go", "ab/f.go", "abc/x/f.go", "sub-dir/q.go", "sub dir/r.go", "deep/er/stillmore/g.go", "a/b+c/z.go", "a/b,c/z.go", "cm/q.go",
	// names that merely end in go.mod or LICENSE
	"cargo.mod", "testdata/algo.mod", "x.GO.MOD", "a/notgo.mod", "MYLICENSE", "a/LICENSE",
	// names that begin with dots without being dot or dot-dot
	"..data/config.yaml", "..keep", "..2024_01_01/x.txt", "sub/..inner/y.txt", "...x"}
var badNames = []string{"..", "../x", "../../x", "../../../escape.txt", "a/../../x", "a/../b", "/abs", "/etc/passwd", "a\\b", "..\\x", "", ".", "./x", "a/", "a//b", "a/./b", "con", "aux.go", "NUL/x", "a~1", "f|g", "f:g", "trailing.", "x.go/", "x.go/child", "A/x.go", "a/X.GO", "README.MD", "readme.md", "GO.MOD", "Go.mod", "sub/go.mod", "a/GO.MOD", "a/b/go.mod", "deep/er/still/go.mod", "a/b/c/Go.Mod", "go.mod/x", "x\x00y", "\xff", "K.go", "k.go", "\u212a/x.go", "\u212a", "k/y.go", "k", "\u017f/x.go", "s", "S/z.go", "\u212b/q", "\u00e5", "ﬀ", "ff", "a/b/", "a/b", "a", "LICENSE/", "deep/", "deep/er",
	// reserved device names with several suffixes (the name before the FIRST dot counts)
	"pkg/aux.tar.gz", "pkg/NUL.pb.go", "com1.conf.d/x.go", "lpt9.a.b.c", "com9", "a/LPT9.txt",
	// directory entries with more than one trailing slash (not clean)
	"pkg//", "pkg/sub///", "a/b//", "//"}
var prefixes = []string{"GOOD", "GOOD", "GOOD", "GOOD", "GOOD", "GOOD", "GOOD", "GOOD", "", "UPPER", "OTHERVERSION", "NOSLASH", "OTHERPATH", "DOUBLE"}

var ids = [][2]string{{"example.com/m", "v1.0.0"}, {"example.com/m", "v1.0.0"}, {"example.com/Mixed/Case", "v0.1.0"}, {"example.com/m/v2", "v2.0.0"}, {"gopkg.in/yaml.v2", "v2.4.0"}}
var badIDs = [][2]string{{"example.com/m", "v1"}, {"example.com/m", "v2.0.0"}, {"Example.com/m", "v1.0.0"}, {"example.com/m", ""}, {"example.com/m", "v1.0.0+meta"}}

func prefixFor(kind, p, v string) string {
	switch kind {
	case "GOOD":
		return p + "@" + v + "/"
	case "UPPER":
		return strings.ToUpper(p) + "@" + v + "/"
	case "OTHERVERSION":
		return p + "@v9.9.9/"
	case "NOSLASH":
		return p + "@" + v
	case "OTHERPATH":
		return "example.org/other@" + v + "/"
	case "DOUBLE":
		return p + "@" + v + "//"
	}
	return ""
}

func genCase(t *rapid.T) unzipCase {
	id := ids[gen.Uniform(t, len(ids), "id")]
	if gen.Chance(t, 6, "badid") {
		id = badIDs[gen.Uniform(t, len(badIDs), "badid2")]
	}
	c := unzipCase{Path: id[0], Version: id[1]}
	c.Target = []string{"absent", "absent", "empty", "nested", "nonempty"}[gen.Uniform(t, 5, "target")]
	if gen.Chance(t, 85, "notnonempty") && c.Target == "nonempty" {
		c.Target = "absent"
	}
	hostile := rapid.Bool().Draw(t, "hostile")
	n := rapid.IntRange(0, 10).Draw(t, "nentries")
	if gen.Chance(t, 3, "manyentries") {
		n = rapid.IntRange(25, 40).Draw(t, "nentries2")
	}
	for i := 0; i < n; i++ {
		var e entry
		e.DeclSize = -1
		pk := "GOOD"
		name := goodNames[gen.Uniform(t, len(goodNames), "good")]
		if hostile {
			if gen.Chance(t, 25, "badname") {
				name = badNames[gen.Uniform(t, len(badNames), "bad")]
			}
			if gen.Chance(t, 12, "badprefix") {
				pk = prefixes[gen.Uniform(t, len(prefixes), "prefix")]
			}
		}
		e.Name = prefixFor(pk, c.Path, c.Version) + name
		if !strings.HasSuffix(e.Name, "/") {
			e.Content = rapid.SliceOfN(rapid.Byte(), 0, 20).Draw(t, "content")
		}
		if hostile && gen.Chance(t, 8, "lie") {
			switch rapid.IntRange(0, 12).Draw(t, "liekind") {
			case 12:
				e.DeclSize = 0 // declares an empty file, carries data
				if len(e.Content) == 0 {
					e.Content = []byte("data")
				}
			case 9:
				e.DeclSize = 1 << 62 // two of these wrap a signed 64-bit total
			case 10:
				e.DeclSize = 1<<63 - 1 - int64(rapid.IntRange(0, 40).Draw(t, "below63"))
			case 11:
				e.Over63 = true // declared size 2^63 + content length: negative as a signed number
			case 6:
				e.DeclSize = zipref.MaxGoMod // exactly at the limit: the check accepts, extraction then fails on the size
			case 7:
				e.DeclSize = zipref.MaxZipFile / 2
			case 8:
				e.DeclSize = zipref.MaxZipFile
			case 0:
				e.DeclSize = int64(len(e.Content)) + 1
			case 1:
				if len(e.Content) > 0 {
					e.DeclSize = int64(len(e.Content)) - 1
				} else {
					e.DeclSize = 5
				}
			case 2:
				e.BadCRC = true
			case 3:
				e.DeclSize = zipref.MaxGoMod + 1 // matters for go.mod / LICENSE
			case 4:
				e.DeclSize = 300 << 20
			case 5:
				e.DeclSize = zipref.MaxZipFile + 1
			}
		} else if rapid.IntRange(0, 3).Draw(t, "deflate") == 0 {
			e.Deflate = true
		}
		if hostile && gen.Chance(t, 6, "dirmode") {
			e.DirMode = true
		}
		c.Entries = append(c.Entries, e)
	}
	if gen.Chance(t, 6, "crctwins") {
		// two files of equal length and equal CRC-32 with different contents
		a := []byte("package twins\n\nconst N = 4444\n// pad pad\n")
		if b := gen.CRCTwin(a); b != nil {
			c.Entries = append(c.Entries, entry{Name: prefixFor("GOOD", c.Path, c.Version) + "twins/one.go", Content: a, DeclSize: -1, Deflate: gen.Chance(t, 50, "twindeflate")},
				entry{Name: prefixFor("GOOD", c.Path, c.Version) + "a/two.go", Content: b, DeclSize: -1})
		}
	}
	if gen.Chance(t, 12, "scratchname") && len(c.Entries) > 0 {
		// a name an extractor might pick for its own scratch file next to another entry (the entry's name with a
		// work-file suffix, as a file or as a directory), placed anywhere in the archive
		of := c.Entries[gen.Uniform(t, len(c.Entries), "scratchof")]
		if !strings.HasSuffix(of.Name, "/") {
			suf := []string{".tmp", "~", ".bak", ".part", ".partial", ".new", ".lock", ".tmp/inner.go", ".0", ".download", "-tmp", ".swp"}[gen.Uniform(t, 12, "scratchsuf")]
			ne := entry{Name: of.Name + suf, Content: []byte("scratch?\n"), DeclSize: -1}
			at := gen.Uniform(t, len(c.Entries)+1, "scratchat")
			c.Entries = append(c.Entries[:at], append([]entry{ne}, c.Entries[at:]...)...)
		}
	}
	if hostile && gen.Chance(t, 15, "dupentry") && len(c.Entries) > 0 {
		c.Entries = append(c.Entries, c.Entries[gen.Uniform(t, len(c.Entries), "dupof")])
	}
	return c
}

func okCase(c unzipCase) bool {
	if len(c.Entries) > 40 {
		return false
	}
	switch c.Target {
	case "absent", "empty", "nonempty", "nested":
	default:
		return false
	}
	for _, e := range c.Entries {
		if len(e.Name) > 600 || len(e.Content) > 4096 || strings.Count(e.Name, "../") > 3 && strings.Contains(e.Name, "../../../../") {
			return false
		}
		// a name may climb at most three levels
		up := 0
		for _, el := range strings.Split(strings.ReplaceAll(e.Name, "\\", "/"), "/") {
			if el == ".." {
				up++
			}
		}
		if up > 3 {
			return false
		}
	}
	return true
}

func idValid(p, v string) bool {
	c := semverref.Canonical(v)
	if semverref.Build(v) == "+incompatible" {
		c += "+incompatible"
	}
	if v == "" || c != v {
		return false
	}
	ok, _ := pathref.CheckOK(p, v)
	return ok
}

func writeZip(path string, es []entry) error {
	f, err := os.Create(path)
	if err != nil {
		return err
	}
	defer f.Close()
	zw := zip.NewWriter(f)
	for _, e := range es {
		honest := e.DeclSize < 0 && !e.BadCRC && !e.Over63
		if honest && e.Deflate && !strings.HasSuffix(e.Name, "/") {
			fh := &zip.FileHeader{Name: e.Name, Method: zip.Deflate}
			if e.DirMode {
				fh.SetMode(os.ModeDir | 0o755)
			}
			w, err := zw.CreateHeader(fh)
			if err != nil {
				return err
			}
			w.Write(e.Content)
			continue
		}
		size := int64(len(e.Content))
		if e.DeclSize >= 0 {
			size = e.DeclSize
		}
		crc := crc32.ChecksumIEEE(e.Content)
		if e.BadCRC {
			crc ^= 0x5a5a5a5a
			if crc == 0 {
				crc = 1
			}
		}
		h := &zip.FileHeader{Name: e.Name, Method: zip.Store, CRC32: crc, CompressedSize64: uint64(len(e.Content)), UncompressedSize64: uint64(size)}
		if e.Over63 {
			h.UncompressedSize64 |= 1 << 63
		}
		if e.DirMode {
			h.SetMode(os.ModeDir | 0o755)
		}
		w, err := zw.CreateRaw(h)
		if err != nil {
			return err
		}
		w.Write(e.Content)
	}
	return zw.Close()
}

func sortedCopy(s []string) []string {
	o := append([]string{}, s...)
	sort.Strings(o)
	return o
}

func errPaths(es []modzip.FileError) []string {
	var o []string
	for _, e := range es {
		o = append(o, e.Path)
	}
	return o
}

func check(c unzipCase) pbt.Result {
	r := pbt.Result{}
	if !okCase(c) {
		r.Skip = true
		return r
	}
	S, err := os.MkdirTemp("", "verif-c12-")
	if err != nil {
		panic(err)
	}
	defer func() {
		filepath.Walk(S, func(p string, fi os.FileInfo, err error) error {
			if err == nil && fi.IsDir() {
				os.Chmod(p, 0o755)
			}
			return nil
		})
		os.RemoveAll(S)
	}()
	P := filepath.Join(S, "p1", "p2", "p3", "P")
	if err := os.MkdirAll(P, 0o755); err != nil {
		panic(err)
	}
	zpath := filepath.Join(P, "m.zip")
	if err := writeZip(zpath, c.Entries); err != nil {
		// archive/zip refused to write this header: outside what can be put in a zip
		r.Skip = true
		r.Classes = []string{"unwritable archive"}
		return r
	}
	target := filepath.Join(P, "t")
	allowedDirs := map[string]bool{S: true, filepath.Join(S, "p1"): true, filepath.Join(S, "p1", "p2"): true, filepath.Join(S, "p1", "p2", "p3"): true, P: true}
	switch c.Target {
	case "empty":
		os.Mkdir(target, 0o755)
	case "nonempty":
		os.Mkdir(target, 0o755)
		os.WriteFile(filepath.Join(target, "existing.txt"), []byte("keep"), 0o644)
	case "nested":
		allowedDirs[filepath.Join(P, "n1")] = true
		allowedDirs[filepath.Join(P, "n1", "n2")] = true
		target = filepath.Join(P, "n1", "n2", "t")
	}

	// what the rules say
	m := module.Version{Path: c.Path, Version: c.Version}
	prefix := c.Path + "@" + c.Version + "/"
	var zes []zipref.ZipEntry
	for _, e := range c.Entries {
		sz := int64(len(e.Content))
		if e.DeclSize >= 0 {
			sz = e.DeclSize
		}
		if e.Over63 {
			sz = -1 // beyond every limit
		}
		zes = append(zes, zipref.ZipEntry{Name: e.Name, Size: sz})
	}
	want := zipref.CheckZip(prefix, zes)
	idOK := idValid(c.Path, c.Version)
	acceptable := idOK && len(want.Invalid) == 0 && !want.SizeExceeded

	// CheckZip vs the rules
	cf, cerr := modzip.CheckZip(m, zpath)
	if !idOK {
		if cerr == nil {
			r.Fail = pbt.Failf("checkzip-bad-id", "CheckZip accepted the module id %s@%s", c.Path, c.Version)
			return r
		}
	} else {
		if fmt.Sprint(sortedCopy(cf.Valid)) != fmt.Sprint(sortedCopy(want.Valid)) {
			r.Fail = pbt.Failf("checkzip-valid", "CheckZip valid %q, rules say %q", cf.Valid, want.Valid)
			return r
		}
		if fmt.Sprint(sortedCopy(errPaths(cf.Invalid))) != fmt.Sprint(sortedCopy(want.Invalid)) {
			r.Fail = pbt.Failf("checkzip-invalid", "CheckZip invalid %q, rules say %q", errPaths(cf.Invalid), want.Invalid)
			return r
		}
		if (cf.SizeError != nil) != want.SizeExceeded {
			r.Fail = pbt.Failf("checkzip-size", "CheckZip SizeError=%v, rules say exceeded=%v", cf.SizeError, want.SizeExceeded)
			return r
		}
		if (cerr == nil) != acceptable {
			r.Fail = pbt.Failf("checkzip-error", "CheckZip err=%v, rules say acceptable=%v", cerr, acceptable)
			return r
		}
	}

	// which entries read back with their declared size and CRC (standard library, not the code under test)
	readable := true
	files := map[string][]byte{}
	if zr, err := zip.OpenReader(zpath); err == nil {
		for _, zf := range zr.File {
			if !strings.HasPrefix(zf.Name, prefix) {
				continue
			}
			name := zf.Name[len(prefix):]
			if name == "" || strings.HasSuffix(name, "/") {
				continue
			}
			rc, err := zf.Open()
			if err != nil {
				readable = false
				continue
			}
			b, err := io.ReadAll(io.LimitReader(rc, 1<<20))
			rc.Close()
			if err != nil {
				readable = false
				continue
			}
			files[name] = b
		}
		zr.Close()
	} else {
		readable = false
	}
	wantOK := acceptable && readable && c.Target != "nonempty"

	uerr := modzip.Unzip(target, m, zpath)

	// classification
	withPrefix, lies := 0, false
	for _, e := range c.Entries {
		if strings.HasPrefix(e.Name, prefix) {
			withPrefix++
		}
		if e.DeclSize >= 0 || e.BadCRC || e.Over63 {
			lies = true
		}
	}
	ruleReject := false
	for _, n := range want.Invalid {
		if strings.HasPrefix(n, prefix) {
			ruleReject = true
		}
	}
	r.NonTrivial = withPrefix >= 2 && (ruleReject || lies) || uerr == nil && len(files) >= 2
	r.Classes = []string{fmt.Sprintf("unzip-ok=%v target=%s", uerr == nil, c.Target)}
	if lies {
		r.Classes = append(r.Classes, "lying size or CRC")
	}

	if (uerr == nil) != wantOK {
		r.Fail = pbt.Failf("unzip-iff", "Unzip err=%v; id valid=%v, rules accept=%v (invalid %q, size exceeded %v), entries readable=%v, target=%s", uerr, idOK, acceptable, want.Invalid, want.SizeExceeded, readable, c.Target)
		return r
	}

	// nothing outside the target directory
	var escaped []string
	filepath.Walk(S, func(p string, fi os.FileInfo, err error) error {
		if err != nil {
			return nil
		}
		if p == zpath || allowedDirs[p] || p == target || strings.HasPrefix(p, target+string(filepath.Separator)) {
			return nil
		}
		escaped = append(escaped, p)
		return nil
	})
	if len(escaped) > 0 {
		r.Fail = pbt.Failf("wrote-outside-target", "Unzip (err=%v) created %q outside the target directory %q", uerr, escaped, target)
		return r
	}
	if c.Target == "nonempty" {
		b, err := os.ReadFile(filepath.Join(target, "existing.txt"))
		ents, _ := os.ReadDir(target)
		if err != nil || string(b) != "keep" || len(ents) != 1 {
			r.Fail = pbt.Failf("nonempty-target-touched", "Unzip into a non-empty directory changed it (%d entries now)", len(ents))
			return r
		}
	}
	if uerr != nil {
		if !idOK || !acceptable {
			// rejected before extraction: the target must not have been created or filled
			if ents, _ := os.ReadDir(target); len(ents) > 0 && c.Target != "nonempty" {
				r.Fail = pbt.Failf("wrote-before-check", "Unzip rejected the archive (%v) but left %d entries in the target", uerr, len(ents))
			}
		}
		return r
	}
	// extracted tree == file entries
	got := map[string][]byte{}
	filepath.Walk(target, func(p string, fi os.FileInfo, err error) error {
		if err != nil || fi.IsDir() {
			return nil
		}
		rel, _ := filepath.Rel(target, p)
		b, _ := os.ReadFile(p)
		got[filepath.ToSlash(rel)] = b
		if !fi.Mode().IsRegular() {
			got[filepath.ToSlash(rel)] = []byte("<irregular>")
		}
		return nil
	})
	for n, b := range files {
		gb, ok := got[n]
		if !ok || !bytes.Equal(gb, b) {
			r.Fail = pbt.Failf("extracted-differs", "entry %q: extracted present=%v, content equal=%v", n, ok, bytes.Equal(gb, b))
			return r
		}
	}
	for n := range got {
		if _, ok := files[n]; !ok {
			r.Fail = pbt.Failf("extracted-extra", "extracted tree contains %q which is not an entry of the archive", n)
			return r
		}
	}
	return r
}

var subs = []pbt.Sub{
	pbt.New("unzip", 5000, 20000, genCase, check),
}

func TestGen(t *testing.T)    { pbt.RunAll(t, subs) }
func TestReplay(t *testing.T) { pbt.Replay(t, subs) }

func FuzzUnzip(f *testing.F) {
	f.Add([]byte("seed"))
	pbt.Fuzz(f, subs, "unzip")
}
