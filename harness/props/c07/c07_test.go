// Package c07: a signed note opens only with verified signatures over exactly its text.
package c07

import (
	"bytes"
	"crypto/ed25519"
	"crypto/sha256"
	"encoding/base64"
	"encoding/binary"
	"errors"
	"fmt"
	"strings"
	"sync"
	"testing"

	"golang.org/x/mod/sumdb/note"
	"pgregory.net/rapid"

	"verif/harness/internal/gen"
	"verif/harness/internal/pbt"
	ref "verif/harness/internal/ref/noteref"
)

func init() {
	pbt.Describe("cases = (text, signer keys, known-verifier keys, pre-existing signatures on the note, byte-level mutations of the signed message). Texts mix ASCII, Unicode, blank lines, trailing blank lines, lines that look like signature lines, control characters and invalid UTF-8. Keys are real Ed25519 keys (built by the harness from seeds and passed through NewSigner/NewVerifier) and mock algorithms (signature = 8 bytes of SHA-256(key||text)) so that acceptance states are reachable for the shrinker; known sets are arbitrary subsets with duplicates, wrong keys under the right (name,hash), and two different keys under one (name,hash). Mutations: flip/insert/delete bytes, move/duplicate/delete lines, alter name/key id/base64, append up to 101 signature lines. Every verifier records (key, msg, sig, result). Oracle: Open's outcome class, text and signature lists == the noteref model; on success every listed signature has a recorded true verification by the verifier of that (name,hash) over exactly Note.Text with exactly the decoded signature bytes; every verification call was over the returned text; round trip Open(Sign(text)) == text with the documented verified/unverified partition. Non-trivial: the message has a well-formed signature block and (a mutation was applied, or the text contains a blank line or a signature-like line). Distinct by JSON rendering. A fifth of the cases open with a caller-written verifier collection instead of VerifierList (keyed by hash alone, by name alone, one verifier for everything, own error for keys it lacks); the model says what each answer leads to (a verifier for another key: Open fails; an error other than unknown-key: returned). The message Sign returned is compared with the documented form again after a later Sign and Open.",
		"Ed25519 is unforgeable; 64-bit mock signatures do not collide on generated inputs",
		"a duplicate signature line of an already accepted known key is skipped without verification (pinned by note_test.go), so 'a known key with a bad signature makes opening fail' is read as: the first signature line of each known key",
		"error classes are compared by type (InvalidSignatureError, UnverifiedNoteError, other), never by message text")
}

func TestMain(m *testing.M) { pbt.Main(m) }

type keySpec struct {
	Name string
	ID   int    // key material identity
	Real bool   // Ed25519 through NewSigner/NewVerifier
	Hash uint32 // mock only: the advertised key hash (small, so collisions can be generated)
}

type mutation struct {
	Op   string
	Pos  int
	Pos2 int
	Ins  string
	N    int
}

type noteCase struct {
	Text     string
	Signers  []keySpec
	Known    []keySpec
	Existing []keySpec // signatures already on the note before Sign (as n.Sigs or n.UnverifiedSigs)
	ExUnver  []bool    // per existing: goes to UnverifiedSigs
	ExStale  bool      // the existing signatures were made over an earlier version of the text
	Lookup   string    // the collection of known verifiers: "" is note.VerifierList, otherwise a caller-written one (see oddVerifiers)
	Muts     []mutation
}

// ---- keys

type realKey struct {
	priv ed25519.PrivateKey
	pub  ed25519.PublicKey
	hash uint32
	skey string
	vkey string
}

var (
	realMu   sync.Mutex
	realKeys = map[string]*realKey{}
)

func getReal(k keySpec) *realKey {
	realMu.Lock()
	defer realMu.Unlock()
	id := fmt.Sprintf("%s/%d", k.Name, k.ID)
	if rk, ok := realKeys[id]; ok {
		return rk
	}
	seed := sha256.Sum256([]byte("seed:" + fmt.Sprint(k.ID)))
	priv := ed25519.NewKeyFromSeed(seed[:])
	pub := priv.Public().(ed25519.PublicKey)
	pubkey := append([]byte{1}, pub...)
	h := sha256.New()
	h.Write([]byte(k.Name))
	h.Write([]byte("\n"))
	h.Write(pubkey)
	hash := binary.BigEndian.Uint32(h.Sum(nil))
	rk := &realKey{priv: priv, pub: pub, hash: hash,
		skey: fmt.Sprintf("PRIVATE+KEY+%s+%08x+%s", k.Name, hash, base64.StdEncoding.EncodeToString(append([]byte{1}, seed[:]...))),
		vkey: fmt.Sprintf("%s+%08x+%s", k.Name, hash, base64.StdEncoding.EncodeToString(pubkey))}
	realKeys[id] = rk
	return rk
}

func (k keySpec) hash() uint32 {
	if k.Real {
		return getReal(k).hash
	}
	return k.Hash
}

func mockSig(id int, text []byte) []byte {
	h := sha256.New()
	fmt.Fprintf(h, "mock key %d\n", id)
	h.Write(text)
	return h.Sum(nil)[:8]
}

// trueVerify is the harness's own statement of which signatures are genuine.
func (k keySpec) trueVerify(text, sig []byte) bool {
	if k.Real {
		return ed25519.Verify(getReal(k).pub, text, sig)
	}
	return bytes.Equal(sig, mockSig(k.ID, text))
}

type mockSigner struct{ k keySpec }

func (s mockSigner) Name() string                    { return s.k.Name }
func (s mockSigner) KeyHash() uint32                 { return s.k.Hash }
func (s mockSigner) Sign(msg []byte) ([]byte, error) { return mockSig(s.k.ID, msg), nil }

func (k keySpec) signer() (note.Signer, error) {
	if k.Real {
		return note.NewSigner(getReal(k).skey)
	}
	return mockSigner{k}, nil
}

type call struct {
	key    keySpec
	msg    []byte
	sig    []byte
	result bool
}

type recVerifier struct {
	k     keySpec
	inner note.Verifier // nil for mock
	log   *[]call
}

func (v recVerifier) Name() string    { return v.k.Name }
func (v recVerifier) KeyHash() uint32 { return v.k.hash() }
func (v recVerifier) Verify(msg, sig []byte) bool {
	var ok bool
	if v.inner != nil {
		ok = v.inner.Verify(msg, sig)
	} else {
		ok = bytes.Equal(sig, mockSig(v.k.ID, msg))
	}
	*v.log = append(*v.log, call{v.k, append([]byte(nil), msg...), append([]byte(nil), sig...), ok})
	return ok
}

// impostor is a verifier with a known key's name and hash that accepts nothing.
type impostor struct{ k keySpec }

func (v impostor) Name() string                { return v.k.Name }
func (v impostor) KeyHash() uint32             { return v.k.hash() }
func (v impostor) Verify(msg, sig []byte) bool { return false }

// oddVerifiers is a caller-written note.Verifiers. The interface promises nothing about what an
// implementation hands back, and Open's documentation says what it does with each answer; the modes are
// collections a caller could plausibly write: a table keyed by key hash alone, one keyed by name alone,
// one that holds a single verifier, and one whose backend fails for keys it does not hold.
type oddVerifiers struct {
	mode string
	vs   []note.Verifier
}

var errBackend = errors.New("verifier store unavailable")

func (o oddVerifiers) Verifier(name string, hash uint32) (note.Verifier, error) {
	for i, v := range o.vs {
		switch o.mode {
		case "byhash":
			if v.KeyHash() == hash {
				return v, nil
			}
		case "byname":
			if v.Name() == name {
				return v, nil
			}
		case "first":
			if i == 0 {
				return v, nil
			}
		default: // "backend-error"
			if v.Name() == name && v.KeyHash() == hash {
				return v, nil
			}
		}
	}
	if o.mode == "backend-error" {
		return nil, errBackend
	}
	return nil, &note.UnknownVerifierError{Name: name, KeyHash: hash}
}

func mkVerifiers(mode string, vs []note.Verifier) note.Verifiers {
	if mode == "" {
		// the list is built from a slice the caller goes on using for something else: what the list knows is what
		// it was given, not what the slice holds later
		scratch := append([]note.Verifier(nil), vs...)
		known := note.VerifierList(scratch...)
		for i := range scratch {
			scratch[i] = impostor{keySpec{Name: "someone-else", ID: 99, Hash: 0x5eed0000 + uint32(i)}}
		}
		return known
	}
	return oddVerifiers{mode, vs}
}

// ---- generators

var names = []string{"a", "b", "sum.golang.org", "localhost.localdev/sumdb", "PeterNeumann", "é", "x/y", "—",
	// valid names with code points that careless scanners trip over: replacement character, em dashes, BOM, NBSP is a space (invalid) so not here
	"key\ufffd", "\ufffd", "—acme", "——", "a—b", "\ufeffbom", "日本", "ｆｕｌｌ"}
var badNames = []string{"", "a b", "a+b", "a\tb", "a b", "a\nb", "\xff"}

var textLines = []string{"replacement \ufffd", "del \x7f", "c1 \u0085 \u009b", "sep \u2028", "bom \ufeff", "hello", "", "— a AAAAAAE=", "— PeterNeumann x08go/ZJkuBS9UG/SffcvIAQxVBtiFupLLr8pAcElZInNIuGUgYN1FFYC2pZSNXgKvqfqdngotpRZb6KE6RyyBwJnAM=", "go.sum database tree", "42", "é日本語", " ", "—", "— ", "x\ty", "x\x00", "\xff\xfe", "a\rb", "If you think cryptography is the answer to your problem,", "— b AAAAAAA="}

func genKey(t *rapid.T, label string) keySpec {
	k := keySpec{Name: names[rapid.IntRange(0, len(names)-1).Draw(t, label+"name")], ID: rapid.IntRange(0, 3).Draw(t, label+"id")}
	if rapid.IntRange(0, 3).Draw(t, label+"real") == 0 {
		k.Real = true
	} else {
		k.Hash = uint32(rapid.IntRange(0, 2).Draw(t, label+"hash"))
		if rapid.IntRange(0, 5).Draw(t, label+"bighash") == 0 {
			k.Hash = []uint32{0xffffffff, 0x80000000, 0x01020304, 0xc74f20a3}[rapid.IntRange(0, 3).Draw(t, label+"bh")]
		}
	}
	return k
}

func genText(t *rapid.T) string {
	n := []int{0, 1, 1, 1, 2, 2, 2, 3, 3, 4, 5}[rapid.IntRange(0, 10).Draw(t, "nlines")]
	hostile := gen.Chance(t, 10, "hostiletext")
	var sb strings.Builder
	for i := 0; i < n; i++ {
		l := textLines[rapid.IntRange(0, len(textLines)-1).Draw(t, "line")]
		if gen.Chance(t, 2, "longline") {
			l = strings.Repeat("long line ", rapid.IntRange(100, 900).Draw(t, "linelen"))
		}
		if !hostile && !ref.ValidText(l+"\n") {
			l = "clean"
		}
		sb.WriteString(l)
		if i < n-1 || !gen.Chance(t, 4, "nofinalnl") {
			sb.WriteString("\n")
		}
	}
	if gen.Chance(t, 3, "arb") {
		return rapid.String().Draw(t, "arbtext")
	}
	return sb.String()
}

var mutOps = []string{"long-sig-line", "empty-sig", "flip", "insert", "delete", "dup-line", "del-line", "move-line", "swap-lines", "append-sigs", "insert-blank", "change-name", "change-keyid", "change-b64", "truncate", "append-text-line"}

func genCase(t *rapid.T) noteCase {
	c := noteCase{Text: genText(t)}
	ns := []int{0, 1, 1, 1, 2, 2, 3, 4}[rapid.IntRange(0, 7).Draw(t, "nsigners")]
	for i := 0; i < ns; i++ {
		k := genKey(t, "s")
		if gen.Chance(t, 2, "badname") {
			k.Name = badNames[rapid.IntRange(0, len(badNames)-1).Draw(t, "bn")]
			k.Real = false
		}
		c.Signers = append(c.Signers, k)
	}
	// known: mostly drawn from the signers, sometimes the same (name,hash) with another key, sometimes unrelated
	nk := []int{0, 1, 1, 1, 2, 2, 3, 4}[rapid.IntRange(0, 7).Draw(t, "nknown")]
	for i := 0; i < nk; i++ {
		kk := rapid.IntRange(0, 9).Draw(t, "kk")
		switch {
		case kk < 6 && len(c.Signers) > 0:
			k := c.Signers[(i+rapid.IntRange(0, 1).Draw(t, "ks"))%len(c.Signers)]
			dup := false
			for _, o := range c.Known {
				if o == k {
					dup = true
				}
			}
			if dup && rapid.IntRange(0, 3).Draw(t, "allowdup") != 0 {
				continue
			}
			c.Known = append(c.Known, k)
		case kk < 8 && len(c.Signers) > 0:
			k := c.Signers[rapid.IntRange(0, len(c.Signers)-1).Draw(t, "ks")]
			if !k.Real {
				k.ID = (k.ID + 1 + rapid.IntRange(0, 2).Draw(t, "otherid")) % 4 // same (name,hash), other key
			}
			c.Known = append(c.Known, k)
		default:
			c.Known = append(c.Known, genKey(t, "k"))
		}
	}
	ne := rapid.IntRange(0, 2).Draw(t, "nexisting")
	if rapid.IntRange(0, 2).Draw(t, "noexisting") != 0 {
		ne = 0
	}
	for i := 0; i < ne; i++ {
		if len(c.Signers) > 0 && rapid.Bool().Draw(t, "exsame") {
			c.Existing = append(c.Existing, c.Signers[rapid.IntRange(0, len(c.Signers)-1).Draw(t, "exs")])
		} else {
			c.Existing = append(c.Existing, genKey(t, "e"))
		}
		c.ExUnver = append(c.ExUnver, rapid.Bool().Draw(t, "exunver"))
	}
	c.ExStale = ne > 0 && rapid.IntRange(0, 2).Draw(t, "exstale") == 0
	if gen.Chance(t, 20, "oddlookup") {
		c.Lookup = []string{"byhash", "byname", "first", "backend-error"}[gen.Uniform(t, 4, "lookupmode")]
	}
	nm := []int{0, 0, 1, 1, 1, 2, 3}[rapid.IntRange(0, 6).Draw(t, "nmuts")]
	for i := 0; i < nm; i++ {
		c.Muts = append(c.Muts, mutation{
			Op:   mutOps[rapid.IntRange(0, len(mutOps)-1).Draw(t, "mop")],
			Pos:  rapid.IntRange(0, 400).Draw(t, "mpos"),
			Pos2: rapid.IntRange(0, 400).Draw(t, "mpos2"),
			Ins:  []string{"\n", "\n\n", "— ", " ", "A", "=", "x", "é", "\x00", "\xff", "— a AAAAAAE=\n", "+", "\t", "—"}[rapid.IntRange(0, 13).Draw(t, "mins")],
			N:    []int{1, 2, 3, 50, 99, 100, 101, 120}[rapid.IntRange(0, 7).Draw(t, "mn")],
		})
	}
	return c
}

func mutate(msg []byte, m mutation) []byte {
	s := string(msg)
	lines := strings.SplitAfter(s, "\n")
	pos := 0
	if len(s) > 0 {
		pos = m.Pos % (len(s) + 1)
	}
	li, lj := 0, 0
	if len(lines) > 0 {
		li, lj = m.Pos%len(lines), m.Pos2%len(lines)
	}
	switch m.Op {
	case "flip":
		if pos < len(s) {
			b := []byte(s)
			b[pos] ^= byte(1 << uint(m.Pos2%8))
			return b
		}
	case "insert":
		return []byte(s[:pos] + m.Ins + s[pos:])
	case "delete":
		if pos < len(s) {
			return []byte(s[:pos] + s[pos+1:])
		}
	case "dup-line":
		if len(lines) > 0 {
			out := append(append([]string{}, lines[:li+1]...), lines[li:]...)
			return []byte(strings.Join(out, ""))
		}
	case "del-line":
		if len(lines) > 0 {
			out := append(append([]string{}, lines[:li]...), lines[li+1:]...)
			return []byte(strings.Join(out, ""))
		}
	case "move-line":
		if len(lines) > 1 {
			l := lines[li]
			rest := append(append([]string{}, lines[:li]...), lines[li+1:]...)
			lj %= len(rest) + 1
			out := append(append(append([]string{}, rest[:lj]...), l), rest[lj:]...)
			return []byte(strings.Join(out, ""))
		}
	case "swap-lines":
		if len(lines) > 1 {
			out := append([]string{}, lines...)
			out[li], out[lj] = out[lj], out[li]
			return []byte(strings.Join(out, ""))
		}
	case "append-sigs":
		var sb strings.Builder
		sb.WriteString(s)
		for i := 0; i < m.N; i++ {
			var raw [12]byte
			binary.BigEndian.PutUint32(raw[:], uint32(i%3))
			raw[11] = byte(i)
			if m.Pos%2 == 0 {
				raw[11] = 7 // identical lines
			}
			fmt.Fprintf(&sb, "— filler %s\n", base64.StdEncoding.EncodeToString(raw[:]))
		}
		return []byte(sb.String())
	case "insert-blank":
		if len(lines) > 0 {
			out := append(append(append([]string{}, lines[:li]...), "\n"), lines[li:]...)
			return []byte(strings.Join(out, ""))
		}
	case "change-name", "change-keyid", "change-b64":
		// operate on the last line (a signature line in a signed message)
		if len(lines) > 0 {
			k := len(lines) - 1 - m.Pos%2
			if k < 0 {
				k = 0
			}
			l := lines[k]
			f := strings.SplitN(strings.TrimSuffix(l, "\n"), " ", 3)
			if len(f) == 3 {
				switch m.Op {
				case "change-name":
					f[1] = f[1] + m.Ins
				case "change-keyid":
					if raw, err := base64.StdEncoding.DecodeString(f[2]); err == nil && len(raw) >= 4 {
						raw[m.Pos2%4] ^= 1
						f[2] = base64.StdEncoding.EncodeToString(raw)
					}
				case "change-b64":
					if len(f[2]) > 0 {
						i := m.Pos2 % len(f[2])
						f[2] = f[2][:i] + m.Ins + f[2][i+1:]
					}
				}
				out := append([]string{}, lines...)
				out[k] = strings.Join(f, " ") + "\n"
				return []byte(strings.Join(out, ""))
			}
		}
	case "long-sig-line":
		// a syntactically valid signature line by an unknown key whose signature is very long (line lengths
		// around the 64 KiB mark), placed before the last line(s) of the signature block
		if len(lines) > 0 {
			n := []int{3000, 49100, 49200, 70000}[m.Pos2%4]
			raw := make([]byte, 4+n)
			raw[0], raw[1], raw[2], raw[3] = 0xde, 0xad, 0xbe, 0xef
			for i := 4; i < len(raw); i++ {
				raw[i] = byte(i * 7)
			}
			long := "— bigkey " + base64.StdEncoding.EncodeToString(raw) + "\n"
			k := len(lines) - 1 - m.Pos%2
			if k < 0 {
				k = 0
			}
			if !strings.HasPrefix(lines[k], "— ") {
				k = len(lines)
			}
			out := append(append(append([]string{}, lines[:k]...), long), lines[k:]...)
			return []byte(strings.Join(out, ""))
		}
	case "empty-sig":
		// a signature line that carries only the 4-byte key id (of an existing line, or id 0)
		if len(lines) > 0 {
			k := len(lines) - 1
			f := strings.SplitN(strings.TrimSuffix(lines[k], "\n"), " ", 3)
			if len(f) == 3 {
				if raw, err := base64.StdEncoding.DecodeString(f[2]); err == nil && len(raw) >= 4 {
					f[2] = base64.StdEncoding.EncodeToString(raw[:4])
					out := append([]string{}, lines...)
					if m.Pos%2 == 0 {
						out[k] = strings.Join(f, " ") + "\n"
					} else {
						out = append(out, strings.Join(f, " ")+"\n")
					}
					return []byte(strings.Join(out, ""))
				}
			}
		}
		return []byte(s + "— a AAAAAA==\n")
	case "truncate":
		return []byte(s[:pos])
	case "append-text-line":
		// put an extra line at the end of the text part (just before the blank separator)
		if i := strings.LastIndex(s, "\n\n"); i >= 0 {
			return []byte(s[:i+1] + "extra" + s[i+1:])
		}
	}
	return msg
}

// ---- the check

func classify(err error) string {
	var ise *note.InvalidSignatureError
	var une *note.UnverifiedNoteError
	switch {
	case err == nil:
		return ref.OK
	case errors.As(err, &ise):
		return ref.InvalidSig
	case errors.As(err, &une):
		return ref.Unverified
	}
	return "other"
}

func modelClass(c string) string {
	if c == ref.Malformed || c == ref.Ambiguous || c == ref.Mismatch || c == ref.LookupErr {
		return "other"
	}
	return c
}

func sigsEqual(a []note.Signature, b []ref.Sig) bool {
	if len(a) != len(b) {
		return false
	}
	for i := range a {
		if a[i].Name != b[i].Name || a[i].Hash != b[i].Hash || a[i].Base64 != b[i].Base64 {
			return false
		}
	}
	return true
}

func check(c noteCase) pbt.Result {
	r := pbt.Result{}
	if len(c.Signers) > 8 || len(c.Known) > 8 || len(c.Existing) > 4 || len(c.Existing) != len(c.ExUnver) || len(c.Muts) > 6 {
		r.Skip = true
		return r
	}
	// build signers
	var signers []note.Signer
	badSigner := false
	for _, k := range c.Signers {
		if !ref.ValidName(k.Name) {
			badSigner = true
			if k.Real {
				r.Skip = true
				return r
			}
		}
		s, err := k.signer()
		if err != nil {
			r.Fail = pbt.Failf("newsigner", "NewSigner rejected a well-formed key for %q: %v", k.Name, err)
			return r
		}
		if s.Name() != k.Name || s.KeyHash() != k.hash() {
			r.Fail = pbt.Failf("signer-identity", "signer for %q reports (%q,%08x), want hash %08x", k.Name, s.Name(), s.KeyHash(), k.hash())
			return r
		}
		signers = append(signers, s)
	}
	n := &note.Note{Text: c.Text}
	for i, k := range c.Existing {
		if !ref.ValidName(k.Name) {
			r.Skip = true
			return r
		}
		var hb [4]byte
		binary.BigEndian.PutUint32(hb[:], k.hash())
		signed := []byte(c.Text)
		if c.ExStale {
			signed = []byte("an earlier version of the text\n" + c.Text)
		}
		var sig []byte
		if k.Real {
			sig = ed25519.Sign(getReal(k).priv, signed)
		} else {
			sig = mockSig(k.ID, signed)
		}
		s := note.Signature{Name: k.Name, Hash: k.hash(), Base64: base64.StdEncoding.EncodeToString(append(hb[:], sig...))}
		if c.ExUnver[i] {
			n.UnverifiedSigs = append(n.UnverifiedSigs, s)
		} else {
			n.Sigs = append(n.Sigs, s)
		}
	}
	sigsBefore := append([]note.Signature(nil), n.Sigs...)
	unverBefore := append([]note.Signature(nil), n.UnverifiedSigs...)
	msg, err := note.Sign(n, signers...)
	if n.Text != c.Text || fmt.Sprint(n.Sigs) != fmt.Sprint(sigsBefore) || fmt.Sprint(n.UnverifiedSigs) != fmt.Sprint(unverBefore) {
		r.Fail = pbt.Failf("sign-changes-note", "Sign changed the caller's note: signatures were %v / %v, are %v / %v", sigsBefore, unverBefore, n.Sigs, n.UnverifiedSigs)
		return r
	}
	wantSignOK := strings.HasSuffix(c.Text, "\n") && !badSigner
	if (err == nil) != wantSignOK {
		r.Fail = pbt.Failf("sign-accept", "Sign(text %q, %d signers) err=%v; text ends in newline=%v, invalid signer name=%v", c.Text, len(signers), err, strings.HasSuffix(c.Text, "\n"), badSigner)
		return r
	}
	if err == nil {
		// Sign's output is fully determined by its documentation: the text, a blank line, the existing
		// signatures (verified ones first) except those whose key one of the signers uses, then one new
		// signature per signer, in order
		var want bytes.Buffer
		want.WriteString(c.Text)
		want.WriteString("\n")
		signerKey := map[string]bool{}
		for _, k := range c.Signers {
			signerKey[fmt.Sprintf("%s+%08x", k.Name, k.hash())] = true
		}
		for _, list := range [][]note.Signature{n.Sigs, n.UnverifiedSigs} {
			for _, s := range list {
				if !signerKey[fmt.Sprintf("%s+%08x", s.Name, s.Hash)] {
					fmt.Fprintf(&want, "— %s %s\n", s.Name, s.Base64)
				}
			}
		}
		for _, k := range c.Signers {
			var hb [4]byte
			binary.BigEndian.PutUint32(hb[:], k.hash())
			var sig []byte
			if k.Real {
				sig = ed25519.Sign(getReal(k).priv, []byte(c.Text))
			} else {
				sig = mockSig(k.ID, []byte(c.Text))
			}
			fmt.Fprintf(&want, "— %s %s\n", k.Name, base64.StdEncoding.EncodeToString(append(hb[:], sig...)))
		}
		if !bytes.Equal(msg, want.Bytes()) {
			r.Fail = pbt.Failf("sign-output", "Sign produced\n%q\nthe documented form is\n%q", msg, want.Bytes())
			return r
		}
		// a signed message stays what it is while another note is signed and opened
		if m2, err := note.Sign(&note.Note{Text: "another note, signed while the first message is held\n"}, signers...); err == nil {
			note.Open(m2, note.VerifierList())
		}
		if !bytes.Equal(msg, want.Bytes()) {
			r.Fail = pbt.Failf("signed-message-changed-later", "the message Sign returned was the documented one when returned and reads %q after a later Sign and Open", msg)
			return r
		}
	}
	if err != nil {
		// still exercise Open on an unsigned rendering so that the parser sees the text
		msg = []byte(c.Text + "\n")
	}
	original := append([]byte(nil), msg...)
	for _, m := range c.Muts {
		msg = mutate(msg, m)
	}
	mutated := !bytes.Equal(msg, original)

	// known verifiers, all recording
	var log []call
	var vs []note.Verifier
	for _, k := range c.Known {
		if !ref.ValidName(k.Name) {
			continue
		}
		rv := recVerifier{k: k, log: &log}
		if k.Real {
			inner, err := note.NewVerifier(getReal(k).vkey)
			if err != nil || inner.Name() != k.Name || inner.KeyHash() != k.hash() {
				r.Fail = pbt.Failf("newverifier", "NewVerifier rejected/misreported a well-formed key for %q: %v", k.Name, err)
				return r
			}
			rv.inner = inner
		}
		vs = append(vs, rv)
	}
	switch c.Lookup {
	case "", "byhash", "byname", "first", "backend-error":
	default:
		r.Skip = true
		return r
	}
	lookup := func(name string, hash uint32) (int, func(text, sig []byte) bool) {
		if c.Lookup != "" {
			// what the caller-written collection answers, restated over the key specifications
			first := true
			for _, k := range c.Known {
				if !ref.ValidName(k.Name) {
					continue
				}
				hit := false
				switch c.Lookup {
				case "byhash":
					hit = k.hash() == hash
				case "byname":
					hit = k.Name == name
				case "first":
					hit = first
				default:
					hit = k.Name == name && k.hash() == hash
				}
				first = false
				if hit {
					if k.Name != name || k.hash() != hash {
						return -1, nil
					}
					return 1, k.trueVerify
				}
			}
			if c.Lookup == "backend-error" {
				return -2, nil
			}
			return 0, nil
		}
		count := 0
		var found keySpec
		for _, k := range c.Known {
			if ref.ValidName(k.Name) && k.Name == name && k.hash() == hash {
				count++
				found = k
			}
		}
		return count, found.trueVerify
	}
	want := ref.Open(msg, lookup)
	keepMsg := append([]byte(nil), msg...)
	got, err := note.Open(msg, mkVerifiers(c.Lookup, vs))
	if !bytes.Equal(msg, keepMsg) {
		r.Fail = pbt.Failf("open-writes-message", "Open changed the caller's message bytes")
		return r
	}
	gotClass := classify(err)

	wellFormed := want.Class != ref.Malformed
	r.NonTrivial = wellFormed && (mutated || strings.Contains(c.Text, "\n\n") || strings.Contains(c.Text, "— "))
	r.Classes = []string{"outcome=" + want.Class}
	if mutated {
		r.Classes = append(r.Classes, "mutated outcome="+want.Class)
	}

	if c.Lookup != "" {
		r.Classes = append(r.Classes, "caller-written verifier collection: "+c.Lookup+" outcome="+want.Class)
	}
	if want.Class == ref.LookupErr && !errors.Is(err, errBackend) {
		r.Fail = pbt.Failf("lookup-error-not-returned", "the verifier collection failed with %q for a key of the message, Open returned err=%v", errBackend, err)
		return r
	}
	if gotClass != modelClass(want.Class) {
		r.Fail = pbt.Failf("open-outcome", "Open outcome %q (err=%v), documented behaviour gives %q; msg=%q", gotClass, err, want.Class, msg)
		return r
	}
	// every verification call must be over exactly the text part
	for _, cl := range log {
		if string(cl.msg) != want.Text {
			r.Fail = pbt.Failf("verify-wrong-bytes", "verifier %s/%d was asked to verify %q, the note text is %q", cl.key.Name, cl.key.ID, cl.msg, want.Text)
			return r
		}
	}
	switch gotClass {
	case ref.OK:
		if got.Text != want.Text || !sigsEqual(got.Sigs, want.Sigs) || !sigsEqual(got.UnverifiedSigs, want.Unverified) {
			r.Fail = pbt.Failf("open-result", "Open = {%q %v %v}, documented behaviour {%q %v %v}", got.Text, got.Sigs, got.UnverifiedSigs, want.Text, want.Sigs, want.Unverified)
			return r
		}
		if len(got.Sigs) < 1 {
			r.Fail = pbt.Failf("no-verified-sig", "Open succeeded without any verified signature")
			return r
		}
		for _, s := range got.Sigs {
			raw, derr := base64.StdEncoding.DecodeString(s.Base64)
			found := false
			for _, cl := range log {
				if cl.key.Name == s.Name && cl.key.hash() == s.Hash && cl.result && derr == nil && len(raw) >= 4 && bytes.Equal(cl.sig, raw[4:]) && string(cl.msg) == got.Text {
					found = true
					// and the harness agrees that this signature is genuine
					if !cl.key.trueVerify([]byte(got.Text), raw[4:]) {
						r.Fail = pbt.Failf("false-verification", "verifier for %s accepted a signature that is not genuine", s.Name)
						return r
					}
				}
			}
			if !found {
				r.Fail = pbt.Failf("listed-but-not-verified", "signature by %s+%08x is listed as verified but no verifier call over exactly the text with exactly its bytes returned true", s.Name, s.Hash)
				return r
			}
			if cnt, _ := lookup(s.Name, s.Hash); cnt != 1 {
				r.Fail = pbt.Failf("verified-unknown-key", "signature by %s+%08x listed as verified but that key is not (uniquely) known", s.Name, s.Hash)
				return r
			}
		}
		for _, s := range got.UnverifiedSigs {
			if cnt, _ := lookup(s.Name, s.Hash); cnt != 0 {
				r.Fail = pbt.Failf("known-key-unverified", "signature by known key %s+%08x listed as unverified", s.Name, s.Hash)
				return r
			}
		}
	case ref.Unverified:
		var une *note.UnverifiedNoteError
		errors.As(err, &une)
		if une.Note == nil || une.Note.Text != want.Text || len(une.Note.Sigs) != 0 || !sigsEqual(une.Note.UnverifiedSigs, want.Unverified) {
			r.Fail = pbt.Failf("unverified-note", "UnverifiedNoteError carries %+v, documented {%q [] %v}", une.Note, want.Text, want.Unverified)
			return r
		}
	case ref.InvalidSig:
		var ise *note.InvalidSignatureError
		errors.As(err, &ise)
		if ise.Name != want.BadName || ise.Hash != want.BadHash {
			r.Fail = pbt.Failf("invalid-sig-key", "InvalidSignatureError names %s+%08x, expected %s+%08x", ise.Name, ise.Hash, want.BadName, want.BadHash)
			return r
		}
	}
	if gotClass != ref.OK && got != nil {
		r.Fail = pbt.Failf("note-with-error", "Open returned both a note and an error")
		return r
	}
	// Nothing learnt in one Open may carry over to the next: open the same bytes again (every listed
	// signature must again have been checked in that call), and once more with impostors, verifiers of
	// the same names and key hashes that accept nothing.
	if gotClass == ref.OK {
		var log2 []call
		var vs2, imp []note.Verifier
		for _, v := range vs {
			rv := v.(recVerifier)
			rv.log = &log2
			vs2 = append(vs2, rv)
			imp = append(imp, impostor{rv.k})
		}
		got2, err2 := note.Open(msg, mkVerifiers(c.Lookup, vs2))
		if err2 != nil || got2 == nil || got2.Text != got.Text || !sigsEqual(got2.Sigs, want.Sigs) {
			r.Fail = pbt.Failf("second-open-differs", "opening the same message twice with the same verifiers gave different results (second: %v)", err2)
			return r
		}
		for _, s := range got2.Sigs {
			found := false
			for _, cl := range log2 {
				if cl.key.Name == s.Name && cl.key.hash() == s.Hash && cl.result && string(cl.msg) == got2.Text {
					found = true
				}
			}
			if !found {
				r.Fail = pbt.Failf("listed-but-not-verified", "second Open of the same message: signature by %s+%08x is listed as verified but its verifier was not called in this Open", s.Name, s.Hash)
				return r
			}
		}
		wantImp := ref.Open(msg, func(name string, hash uint32) (int, func(text, sig []byte) bool) {
			cnt, _ := lookup(name, hash)
			return cnt, func(text, sig []byte) bool { return false }
		})
		_, err3 := note.Open(msg, mkVerifiers(c.Lookup, imp))
		if c3 := classify(err3); c3 != modelClass(wantImp.Class) {
			r.Fail = pbt.Failf("impostor-open", "after a successful Open, opening the same message with verifiers of the same names and key hashes that reject everything gave %q (err=%v), documented behaviour gives %q", c3, err3, wantImp.Class)
			return r
		}
		r.Classes = append(r.Classes, "reopened with impostors")
	}

	// Direct statements (not via the model) for an unmodified signed message of valid text.
	if !mutated && wantSignOK && ref.ValidText(c.Text) {
		r.Classes = append(r.Classes, "roundtrip")
		if (want.Class == ref.OK || want.Class == ref.Unverified) && want.Text != c.Text {
			r.Fail = pbt.Failf("roundtrip-text", "signed text %q opens as %q", c.Text, want.Text)
			return r
		}
		if !wellFormed && len(c.Signers)+len(c.Existing) > 0 {
			r.Fail = pbt.Failf("roundtrip-malformed", "a message produced by Sign for valid text %q with %d signatures is malformed: %q", c.Text, len(c.Signers)+len(c.Existing), msg)
			return r
		}
		if gotClass == ref.OK {
			// partition: every signer known under a unique, matching key is verified
			for _, k := range c.Signers {
				cnt, _ := lookup(k.Name, k.hash())
				inSigs, inUn := false, false
				for _, s := range got.Sigs {
					if s.Name == k.Name && s.Hash == k.hash() {
						inSigs = true
					}
				}
				for _, s := range got.UnverifiedSigs {
					if s.Name == k.Name && s.Hash == k.hash() {
						inUn = true
					}
				}
				if cnt == 1 && (!inSigs || inUn) || cnt == 0 && (inSigs || !inUn) {
					r.Fail = pbt.Failf("partition", "signer %s+%08x: known count %d, listed verified=%v unverified=%v", k.Name, k.hash(), cnt, inSigs, inUn)
					return r
				}
			}
		}
	}
	// Modification of the text never yields a successful open with another text
	// unless the harness itself agrees the signatures are genuine for it (checked above through trueVerify).
	if mutated && gotClass == ref.OK && wantSignOK && got.Text != c.Text {
		r.Classes = append(r.Classes, "mutated text opened (signatures genuinely cover the new text)")
	}
	return r
}

var subs = []pbt.Sub{
	pbt.New("open", 40000, 120000, genCase, check),
}

func TestGen(t *testing.T)    { pbt.RunAll(t, subs) }
func TestReplay(t *testing.T) { pbt.Replay(t, subs) }

func FuzzOpen(f *testing.F) {
	f.Add([]byte("seed corpus entry"))
	pbt.Fuzz(f, subs, "open")
}
