// Package c19: the h1 module content hash is the documented formula over names and bytes only.
package c19

import (
	"archive/zip"
	"bytes"
	"crypto/sha256"
	"encoding/base64"
	"fmt"
	"io"
	"os"
	"path"
	"path/filepath"
	"sort"
	"strings"
	"testing"

	"golang.org/x/mod/module"
	"golang.org/x/mod/sumdb/dirhash"
	modzip "golang.org/x/mod/zip"
	"pgregory.net/rapid"

	"verif/harness/internal/gen"
	"verif/harness/internal/pbt"
	"verif/harness/internal/zipgen"
)

func init() {
	pbt.Describe("file sets with distinct names (spaces, Unicode, leading '-', names containing '<hex64>  x' fragments that imitate summary lines, names with newline), small contents, generated listing orders, sets padded to 50-1000 names (around 64/128/256) in 1 case of 12, contents delivered through short-read readers, a failing hash call before the checked one; confusable pairs (bytes moved between a name and its content, contents swapped, names fused, one file split in two); real directory trees and zip archives written by the harness (archive/zip, Store or Deflate, arbitrary metadata), and module zips produced by zip.Create then extracted by zip.Unzip. Oracle: formula recomputed by the harness (sha256/hex/base64 called directly), permutation invariance, newline refusal, distinct sets => distinct hashes, HashZip == HashDir of the extraction. Non-trivial: >=2 files and a non-identity permutation, or a confusable pair, or a zip/dir with >=2 files. Distinct by JSON rendering. (modzip: the optional large file has 32 KiB+1 ... 1 MiB, compressible or not.) 15% of the module lists hold a file named after another file plus a work-file suffix (.tmp, ~, .bak, ...), anywhere in the list.",
		"SHA-256 is collision-free on the generated inputs", "file sets have distinct names (the property speaks of sets)")
}

func TestMain(m *testing.M) { pbt.Main(m) }

type file struct {
	Name    string
	Content []byte
	Big     int  `json:",omitempty"` // >0: the content is bigContent(Big, Comp) instead of Content
	Comp    bool `json:",omitempty"`
}

// expand materialises the big contents.
func expand(fs []file) []file {
	out := make([]file, len(fs))
	for i, f := range fs {
		out[i] = f
		if f.Big > 0 {
			out[i].Content = bigContent(f.Big, f.Comp)
		}
	}
	return out
}

type setCase struct {
	Files  []file
	Perm   []int // order in which the names are listed
	Chunk  int   // >0: contents are delivered in reads of at most this many bytes
	Poison int   // >0: first make a hash call fail: its first file's reader returns an error after Poison-1 bytes
	Pad    int   // >0: the set also contains Pad files "pad/0000".."pad/NNNN" (one byte each), listed in descending order in the middle
}

// expand adds the padding files of a case: large sets without large case renderings.
func (c setCase) expand() ([]file, []int) {
	if c.Pad <= 0 {
		return c.Files, c.Perm
	}
	files := append([]file(nil), c.Files...)
	n := len(c.Files)
	half := len(c.Perm) / 2
	perm := append([]int(nil), c.Perm[:half]...)
	for i := c.Pad - 1; i >= 0; i-- {
		perm = append(perm, n+i)
	}
	perm = append(perm, c.Perm[half:]...)
	for i := 0; i < c.Pad; i++ {
		files = append(files, file{Name: fmt.Sprintf("pad/%04d", i), Content: []byte{byte(i)}})
	}
	return files, perm
}

func formula(files []file) string {
	fs := append([]file(nil), files...)
	sort.Slice(fs, func(i, j int) bool { return fs[i].Name < fs[j].Name })
	var summary bytes.Buffer
	for _, f := range fs {
		sum := sha256.Sum256(f.Content)
		summary.WriteString(fmt.Sprintf("%x", sum[:]))
		summary.WriteString("  ")
		summary.WriteString(f.Name)
		summary.WriteString("\n")
	}
	total := sha256.Sum256(summary.Bytes())
	return "h1:" + base64.StdEncoding.EncodeToString(total[:])
}

func opener(files []file) func(string) (io.ReadCloser, error) { return chunkOpener(files, 0) }

// chunkReader hands out at most chunk bytes per Read (short reads without error are legal for an io.Reader).
type chunkReader struct {
	b     []byte
	chunk int
}

func (r *chunkReader) Read(p []byte) (int, error) {
	if len(r.b) == 0 {
		return 0, io.EOF
	}
	n := r.chunk
	if n > len(p) {
		n = len(p)
	}
	if n > len(r.b) {
		n = len(r.b)
	}
	copy(p, r.b[:n])
	r.b = r.b[n:]
	return n, nil
}

// failingReader delivers failAt bytes and then a non-EOF error.
type failingReader struct {
	data   []byte
	failAt int
	pos    int
}

func (r *failingReader) Read(p []byte) (int, error) {
	if r.pos >= r.failAt || r.pos >= len(r.data) {
		return 0, fmt.Errorf("injected read error")
	}
	n := copy(p, r.data[r.pos:min(r.failAt, len(r.data))])
	r.pos += n
	return n, nil
}

func chunkOpener(files []file, chunk int) func(string) (io.ReadCloser, error) {
	m := map[string][]byte{}
	for _, f := range files {
		m[f.Name] = f.Content
	}
	return func(name string) (io.ReadCloser, error) {
		b, ok := m[name]
		if !ok {
			return nil, fmt.Errorf("no file %q", name)
		}
		if chunk > 0 {
			return io.NopCloser(&chunkReader{b, chunk}), nil
		}
		return io.NopCloser(bytes.NewReader(b)), nil
	}
}

var hexline = strings.Repeat("ab", 32) + "  x"

var nameWords = []string{"a", "b", "go.mod", "a/b.go", "a b", "-rf", "é", "日本", "A", "a/B", "dir/sub/file.txt", "x  y", hexline, "z" + hexline, hexline + "/q", " ", "", "a\tb", "a\rb", "LICENSE", "m@v1.0.0/go.mod", "m@v1.0.0/a.go"}

func genName(t *rapid.T) string {
	switch rapid.IntRange(0, 9).Draw(t, "nk") {
	case 0, 1, 2, 3, 4:
		return nameWords[rapid.IntRange(0, len(nameWords)-1).Draw(t, "nw")]
	case 5, 6:
		return nameWords[rapid.IntRange(0, len(nameWords)-1).Draw(t, "nw")] + rapid.StringMatching(`[a-c/ .]{0,4}`).Draw(t, "sfx")
	case 7:
		return rapid.StringN(0, 8, 16).Draw(t, "arb")
	case 8:
		return []string{"a\nb", "\nabc", "\n", "x\n", "a\nb", "\n" + hexline}[rapid.IntRange(0, 5).Draw(t, "nlname")] // refused
	case 9:
		if rapid.IntRange(0, 3).Draw(t, "long") == 0 {
			// names whose summary line exceeds 4 KiB / 64 KiB buffers
			n := []int{255, 256, 1000, 4029, 4030, 4096, 5000, 65536, 70000}[rapid.IntRange(0, 8).Draw(t, "longn")]
			return rapid.StringMatching(`[a-z]{1,3}`).Draw(t, "longpfx") + "/" + strings.Repeat("n", n)
		}
	}
	return rapid.StringMatching(`[a-z]{1,3}(/[a-z]{1,3}){0,3}`).Draw(t, "path")
}

// bigContent returns n bytes: either highly compressible or not.
func bigContent(n int, compressible bool) []byte {
	b := make([]byte, n)
	x := uint32(n)
	for i := range b {
		if compressible {
			b[i] = byte('a' + i%3)
		} else {
			x = x*1664525 + 1013904223
			b[i] = byte(x >> 24)
		}
	}
	return b
}

func genContent(t *rapid.T) []byte {
	return genContentBig(t, false)
}

func genContentBig(t *rapid.T, allowBig bool) []byte {
	if allowBig && rapid.IntRange(0, 7).Draw(t, "big") == 0 {
		n := []int{32767, 32768, 32769, 40000, 65536, 65537, 100000, 200000}[rapid.IntRange(0, 7).Draw(t, "bigsize")]
		return bigContent(n, rapid.Bool().Draw(t, "compressible"))
	}
	switch rapid.IntRange(0, 5).Draw(t, "ck") {
	case 0:
		return nil
	case 1:
		return []byte(hexline + "\n")
	case 2:
		return []byte("package a\n")
	}
	return rapid.SliceOfN(rapid.Byte(), 0, 40).Draw(t, "content")
}

func genFiles(t *rapid.T, min int) []file {
	n := rapid.IntRange(min, 8).Draw(t, "nfiles")
	seen := map[string]bool{}
	var fs []file
	for i := 0; i < n; i++ {
		name := genName(t)
		if seen[name] {
			name += fmt.Sprint(i)
		}
		seen[name] = true
		fs = append(fs, file{Name: name, Content: genContent(t)})
	}
	return fs
}

func genSet(t *rapid.T) setCase {
	fs := genFiles(t, 0)
	idx := make([]int, len(fs))
	for i := range idx {
		idx[i] = i
	}
	chunk := 0
	if rapid.IntRange(0, 2).Draw(t, "chunked") == 0 {
		chunk = []int{1, 2, 7, 31, 32, 33, 100}[rapid.IntRange(0, 6).Draw(t, "chunk")]
	}
	poison := 0
	if rapid.IntRange(0, 4).Draw(t, "poison") == 0 {
		poison = 1 + rapid.IntRange(0, 40).Draw(t, "poisonat")
	}
	pad := 0
	if gen.Chance(t, 8, "padded") {
		pad = []int{50, 62, 63, 64, 65, 100, 127, 128, 129, 255, 256, 257, 1000}[gen.Uniform(t, 13, "pad")]
	}
	return setCase{fs, rapid.Permutation(idx).Draw(t, "perm"), chunk, poison, pad}
}

func validPerm(p []int, n int) bool {
	if len(p) != n {
		return false
	}
	seen := map[int]bool{}
	for _, i := range p {
		if i < 0 || i >= n || seen[i] {
			return false
		}
		seen[i] = true
	}
	return true
}

func distinctNames(fs []file) bool {
	seen := map[string]bool{}
	for _, f := range fs {
		if seen[f.Name] {
			return false
		}
		seen[f.Name] = true
	}
	return true
}

func checkSet(c setCase) pbt.Result {
	r := pbt.Result{}
	if !validPerm(c.Perm, len(c.Files)) || c.Pad < 0 || c.Pad > 5000 {
		r.Skip = true
		return r
	}
	if c.Pad > 0 {
		r.Classes = append(r.Classes, "more than 50 files")
	}
	c.Files, c.Perm = c.expand()
	if !distinctNames(c.Files) {
		r.Skip = true
		return r
	}
	var listed, natural []string
	identity := true
	for i, j := range c.Perm {
		listed = append(listed, c.Files[j].Name)
		natural = append(natural, c.Files[i].Name)
		if i != j {
			identity = false
		}
	}
	r.NonTrivial = len(c.Files) >= 2 && !identity
	hasNL := false
	for _, f := range c.Files {
		if strings.Contains(f.Name, "\n") {
			hasNL = true
		}
	}
	keep := append([]string(nil), listed...)
	if c.Chunk < 0 || c.Poison < 0 {
		r.Skip = true
		return r
	}
	if c.Poison > 0 {
		// an earlier hash call in the same process that fails half-way must not influence later calls
		r.Classes = append(r.Classes, "after a failed hash call")
		_, perr := dirhash.Hash1([]string{"poisoned", "zz"}, func(name string) (io.ReadCloser, error) {
			return io.NopCloser(&failingReader{data: bytes.Repeat([]byte("stale bytes "), 8), failAt: c.Poison - 1}), nil
		})
		if perr == nil {
			r.Fail = pbt.Failf("read-error-swallowed", "Hash1 succeeded although a file's reader returned an error after %d bytes", c.Poison-1)
			return r
		}
	}
	got, err := dirhash.Hash1(listed, chunkOpener(c.Files, c.Chunk))
	if c.Chunk > 0 {
		r.Classes = append(r.Classes, "short reads")
	}
	if fmt.Sprint(keep) != fmt.Sprint(listed) {
		r.Fail = pbt.Failf("mutates-input", "Hash1 reordered the caller's slice: %q -> %q", keep, listed)
		return r
	}
	if hasNL {
		r.Classes = append(r.Classes, "newline-name")
		if err == nil {
			r.Fail = pbt.Failf("newline-accepted", "Hash1 accepted a name containing a newline: %q -> %s", listed, got)
		}
		return r
	}
	if err != nil {
		r.Fail = pbt.Failf("error", "Hash1(%q) failed: %v", listed, err)
		return r
	}
	if want := formula(c.Files); got != want {
		r.Fail = pbt.Failf("formula", "Hash1(%q)=%s, documented formula gives %s", listed, got, want)
		return r
	}
	got2, err := dirhash.Hash1(natural, opener(c.Files))
	if err != nil || got2 != got {
		r.Fail = pbt.Failf("order-dependent", "Hash1 of %q = %s but of %q = %s (%v)", listed, got, natural, got2, err)
	}
	if dh, err := dirhash.DefaultHash(listed, opener(c.Files)); err != nil || dh != got {
		r.Fail = pbt.Failf("defaulthash", "DefaultHash differs from Hash1: %s vs %s (%v)", dh, got, err)
	}
	return r
}

type pairCase struct {
	A, B []file
	How  string
}

func cloneFiles(fs []file) []file {
	out := make([]file, len(fs))
	for i, f := range fs {
		out[i] = file{Name: f.Name, Content: append([]byte(nil), f.Content...)}
	}
	return out
}

func genPair(t *rapid.T) pairCase {
	a := genFiles(t, 1)
	for i := range a {
		a[i].Name = strings.ReplaceAll(a[i].Name, "\n", "_")
	}
	// re-establish distinctness after the replacement
	seen := map[string]bool{}
	for i := range a {
		for seen[a[i].Name] {
			a[i].Name += "'"
		}
		seen[a[i].Name] = true
	}
	b := cloneFiles(a)
	i := rapid.IntRange(0, len(a)-1).Draw(t, "i")
	how := []string{"move-tail-of-name-into-content", "move-head-of-content-into-name", "swap-contents", "fuse-two-files", "split-file", "drop-file", "rename-case", "append-space", "flip-content-bit", "content-is-summary-line"}[rapid.IntRange(0, 9).Draw(t, "how")]
	switch how {
	case "move-tail-of-name-into-content":
		if n := len(b[i].Name); n > 1 {
			k := rapid.IntRange(1, n-1).Draw(t, "k")
			b[i].Content = append([]byte(b[i].Name[k:]), b[i].Content...)
			b[i].Name = b[i].Name[:k]
		}
	case "move-head-of-content-into-name":
		if n := len(b[i].Content); n > 0 {
			k := rapid.IntRange(1, n).Draw(t, "k")
			b[i].Name += strings.ReplaceAll(string(b[i].Content[:k]), "\n", "_")
			b[i].Content = b[i].Content[k:]
		}
	case "swap-contents":
		j := rapid.IntRange(0, len(a)-1).Draw(t, "j")
		b[i].Content, b[j].Content = b[j].Content, b[i].Content
	case "fuse-two-files":
		if len(b) >= 2 {
			j := (i + 1) % len(b)
			sum := sha256.Sum256(b[j].Content)
			// a single name that spells what the two summary lines would look like, minus the newline
			b[i].Name = b[i].Name + " " + fmt.Sprintf("%x", sum[:]) + "  " + b[j].Name
			b = append(b[:j], b[j+1:]...)
		}
	case "split-file":
		b = append(b, file{Name: b[i].Name + "2", Content: b[i].Content})
	case "drop-file":
		b = append(b[:i], b[i+1:]...)
	case "rename-case":
		b[i].Name = strings.ToUpper(b[i].Name)
	case "append-space":
		b[i].Name += " "
	case "flip-content-bit":
		if len(b[i].Content) > 0 {
			b[i].Content[0] ^= 1
		} else {
			b[i].Content = []byte{0}
		}
	case "content-is-summary-line":
		sum := sha256.Sum256(b[i].Content)
		b[i].Content = []byte(fmt.Sprintf("%x  %s\n", sum[:], b[i].Name))
	}
	return pairCase{a, b, how}
}

func sameSet(a, b []file) bool {
	if len(a) != len(b) {
		return false
	}
	m := map[string]string{}
	for _, f := range a {
		m[f.Name] = string(f.Content)
	}
	for _, f := range b {
		c, ok := m[f.Name]
		if !ok || c != string(f.Content) {
			return false
		}
	}
	return true
}

func names(fs []file) []string {
	var out []string
	for _, f := range fs {
		out = append(out, f.Name)
	}
	return out
}

func checkPair(c pairCase) pbt.Result {
	r := pbt.Result{Classes: []string{c.How}}
	for _, fs := range [][]file{c.A, c.B} {
		if !distinctNames(fs) {
			r.Skip = true
			return r
		}
		for _, f := range fs {
			if strings.Contains(f.Name, "\n") {
				r.Skip = true
				return r
			}
		}
	}
	ha, err1 := dirhash.Hash1(names(c.A), opener(c.A))
	hb, err2 := dirhash.Hash1(names(c.B), opener(c.B))
	if err1 != nil || err2 != nil {
		r.Fail = pbt.Failf("error", "Hash1 failed: %v %v", err1, err2)
		return r
	}
	if ha != formula(c.A) || hb != formula(c.B) {
		r.Fail = pbt.Failf("formula", "Hash1 differs from the documented formula on %q or %q", names(c.A), names(c.B))
		return r
	}
	same := sameSet(c.A, c.B)
	r.NonTrivial = !same
	if same != (ha == hb) {
		r.Fail = pbt.Failf("injective", "sets equal=%v but hashes %s / %s (how=%s, A=%q, B=%q)", same, ha, hb, c.How, names(c.A), names(c.B))
	}
	return r
}

// ---- real directories and raw zip archives

type treeCase struct {
	Files  []file // names are slash-separated relative paths, valid on the local file system
	Prefix string
	Method uint16 // zip compression method for the raw zip
}

var treeNames = []string{".env", "env", ".github/ci.yml", "github/ci.yml", "..x", ".x.", "a.go", "b.go", "go.mod", "LICENSE", "sub/x.go", "sub/deep/y.txt", "A.txt", "a b.txt", "é.go", "-x", "sub/-y", "z/z/z/z", "x  y", hexline, "dir.go/f"}

func genTree(t *rapid.T) treeCase {
	n := rapid.IntRange(0, 7).Draw(t, "n")
	seen := map[string]bool{}
	var fs []file
	for i := 0; i < n; i++ {
		name := treeNames[rapid.IntRange(0, len(treeNames)-1).Draw(t, "tn")]
		if rapid.IntRange(0, 3).Draw(t, "nest") == 0 {
			name = rapid.StringMatching(`[a-c]{1,2}`).Draw(t, "d") + "/" + name
		}
		// avoid file/dir clashes and duplicates
		clash := seen[name]
		for p := range seen {
			if strings.HasPrefix(p, name+"/") || strings.HasPrefix(name, p+"/") {
				clash = true
			}
		}
		if clash {
			continue
		}
		seen[name] = true
		f := file{Name: name, Content: genContent(t)}
		if rapid.IntRange(0, 9).Draw(t, "big") == 0 {
			f.Content = nil
			f.Big = []int{32767, 32768, 32769, 40000, 65536, 65537, 100000, 200000}[rapid.IntRange(0, 7).Draw(t, "bigsize")]
			f.Comp = rapid.Bool().Draw(t, "compressible")
		}
		fs = append(fs, f)
	}
	// families of sibling directories at depth 1..8: every directory level gets more than one child somewhere
	if gen.Chance(t, 30, "family") {
		depth := rapid.IntRange(1, 8).Draw(t, "famdepth")
		base := "fam"
		for i := 1; i < depth; i++ {
			base += "/" + []string{"a", "b", "internal", "x"}[gen.Uniform(t, 4, "famel")]
		}
		for _, rel := range [][]string{{"alpha/one.go", "beta/two.go"}, {"alpha/one.go", "beta/two.go", "gamma/deep/three.go", "z.go"}, {"a/1", "b/2", "c/3", "d/4"}, {"m/n/o/p.go", "m/n/q/r.go", "m/s.go"}}[gen.Uniform(t, 4, "famshape")] {
			name := base + "/" + rel
			if !seen[name] {
				seen[name] = true
				fs = append(fs, file{Name: name, Content: []byte(name)})
			}
		}
	}
	// (the empty prefix: the names are then the paths relative to the directory, dot files included)
	prefix := []string{"example.com/m@v1.0.0", "m@v1", "p", "github.com/A/b@v0.0.0-20200101000000-abcdefabcdef", "x y", "", "", ".", ".m@v1"}[gen.Uniform(t, 9, "prefix")]
	if prefix == "." {
		prefix = ".hidden/m@v1"
	}
	return treeCase{fs, prefix, []uint16{zip.Store, zip.Deflate}[rapid.IntRange(0, 1).Draw(t, "method")]}
}

func okTree(c treeCase) bool {
	if !distinctNames(c.Files) || c.Prefix != "" && filepath.Clean(c.Prefix) != c.Prefix || strings.HasPrefix(c.Prefix, "/") || strings.HasPrefix(c.Prefix, "..") {
		return false
	}
	for _, f := range c.Files {
		if f.Name == "" || filepath.Clean(f.Name) != f.Name || strings.HasPrefix(f.Name, "/") || strings.HasPrefix(f.Name, "..") || strings.ContainsAny(f.Name, "\x00\n") {
			return false
		}
		for _, g := range c.Files {
			if strings.HasPrefix(g.Name, f.Name+"/") {
				return false
			}
		}
	}
	return true
}

func checkTree(c treeCase) pbt.Result {
	r := pbt.Result{}
	if !okTree(c) {
		r.Skip = true
		return r
	}
	r.NonTrivial = len(c.Files) >= 2
	for _, f := range c.Files {
		if f.Big > 1<<20 || f.Big < 0 {
			r.Skip = true
			return r
		}
		if f.Big > 0 {
			r.Classes = append(r.Classes, "file larger than 32 KiB")
		}
	}
	c.Files = expand(c.Files)
	dir, err := os.MkdirTemp("", "verif-c19-")
	if err != nil {
		panic(err)
	}
	defer os.RemoveAll(dir)
	root := filepath.Join(dir, "tree")
	os.Mkdir(root, 0o755)
	var prefixed []file
	for _, f := range c.Files {
		p := filepath.Join(root, filepath.FromSlash(f.Name))
		os.MkdirAll(filepath.Dir(p), 0o755)
		if err := os.WriteFile(p, f.Content, 0o644); err != nil {
			panic(err)
		}
		prefixed = append(prefixed, file{Name: path.Join(c.Prefix, f.Name), Content: f.Content})
	}
	want := formula(prefixed)
	got, err := dirhash.HashDir(root, c.Prefix, dirhash.Hash1)
	if err != nil || got != want {
		r.Fail = pbt.Failf("hashdir", "HashDir(prefix %q) of %q = (%s,%v), formula %s", c.Prefix, names(c.Files), got, err, want)
		return r
	}
	// DirFiles lists exactly the files, slash separated, under the prefix
	list, err := dirhash.DirFiles(root, c.Prefix)
	sort.Strings(list)
	wantList := names(prefixed)
	sort.Strings(wantList)
	if err != nil || fmt.Sprint(list) != fmt.Sprint(wantList) {
		r.Fail = pbt.Failf("dirfiles", "DirFiles = %q (%v), want %q", list, err, wantList)
		return r
	}
	// raw zip with the same entries: only names and contents count
	zp := filepath.Join(dir, "x.zip")
	zf, _ := os.Create(zp)
	zw := zip.NewWriter(zf)
	for i := len(prefixed) - 1; i >= 0; i-- { // reverse order on purpose
		f := prefixed[i]
		w, err := zw.CreateHeader(&zip.FileHeader{Name: f.Name, Method: c.Method, Comment: "ignored", ExternalAttrs: uint32(i)})
		if err != nil {
			panic(err)
		}
		w.Write(f.Content)
	}
	zw.Close()
	zf.Close()
	gz, err := dirhash.HashZip(zp, dirhash.Hash1)
	if err != nil || gz != want {
		r.Fail = pbt.Failf("hashzip", "HashZip of entries %q = (%s,%v), formula %s", names(prefixed), gz, err, want)
		return r
	}
	// The hash is a function of names and bytes only: not of the path, size or time stamp of the archive.
	// Rewrite the archive in place with one content byte changed (same length with the Store method),
	// give it its old modification time back, and hash again; likewise for the directory.
	st, serr := os.Stat(zp)
	changed := -1
	for i, f := range prefixed {
		if len(f.Content) > 0 {
			changed = i
			break
		}
	}
	if serr == nil && changed >= 0 {
		r.Classes = append(r.Classes, "archive rewritten in place")
		mod := append([]file(nil), prefixed...)
		nc := append([]byte(nil), mod[changed].Content...)
		nc[0] ^= 0x20
		mod[changed].Content = nc
		zf, _ := os.Create(zp)
		zw := zip.NewWriter(zf)
		for i := len(mod) - 1; i >= 0; i-- {
			w, err := zw.CreateHeader(&zip.FileHeader{Name: mod[i].Name, Method: c.Method, Comment: "ignored", ExternalAttrs: uint32(i)})
			if err != nil {
				panic(err)
			}
			w.Write(mod[i].Content)
		}
		zw.Close()
		zf.Close()
		os.Chtimes(zp, st.ModTime(), st.ModTime())
		want2 := formula(mod)
		gz2, err := dirhash.HashZip(zp, dirhash.Hash1)
		if err != nil || gz2 != want2 {
			st2, _ := os.Stat(zp)
			r.Fail = pbt.Failf("hashzip-rewritten", "after the archive was rewritten in place with one content byte changed (size %d -> %d, same modification time), HashZip = (%s,%v), formula %s (hash of the previous content: %s)", st.Size(), st2.Size(), gz2, err, want2, want)
			return r
		}
		// the same for the directory
		fp := filepath.Join(root, filepath.FromSlash(c.Files[changed].Name))
		if fst, err := os.Stat(fp); err == nil {
			os.WriteFile(fp, nc, 0o644)
			os.Chtimes(fp, fst.ModTime(), fst.ModTime())
			gd2, err := dirhash.HashDir(root, c.Prefix, dirhash.Hash1)
			if err != nil || gd2 != want2 {
				r.Fail = pbt.Failf("hashdir-rewritten", "after one file of the directory was rewritten in place (same size and modification time), HashDir = (%s,%v), formula %s", gd2, err, want2)
				return r
			}
		}
	}
	return r
}

var subs = []pbt.Sub{
	pbt.New("formula", 40000, 150000, genSet, checkSet),
	pbt.New("confusable", 30000, 100000, genPair, checkPair),
	pbt.New("tree", 2500, 10000, genTree, checkTree),
}

func TestGen(t *testing.T)    { pbt.RunAll(t, append(subs, extraSubs...)) }
func TestReplay(t *testing.T) { pbt.Replay(t, append(subs, extraSubs...)) }

// ---- module zips produced by the zip package

func genModZip(t *rapid.T) zipgen.ListCase {
	c := zipgen.GenList(t, false) // mild lists: they usually pass the file check
	if gen.Chance(t, 15, "scratchname") {
		zipgen.AddScratchName(t, &c)
	}
	if rapid.IntRange(0, 5).Draw(t, "bigfile") == 0 {
		// (beyond copy buffers of 32, 64, 128 and 256 KiB and 1 MiB; compressible content has a compressed size far below any of them)
		n := []int{32769, 40000, 70000, 131073, 262144, 262145, 300000, 700000, 1 << 20}[gen.Uniform(t, 9, "bigsize")]
		c.Entries = append(c.Entries, zipgen.Entry{Name: "big/data.bin", Mode: "file", Content: bigContent(n, rapid.Bool().Draw(t, "compressible")), Size: -1})
	}
	return c
}

func checkModZip(c zipgen.ListCase) pbt.Result {
	r := pbt.Result{}
	if !zipgen.OKListBig(c, 1<<20) {
		r.Skip = true
		return r
	}
	var files []modzip.File
	for _, e := range c.Entries {
		files = append(files, zipgen.File{E: e})
	}
	m := module.Version{Path: c.Path, Version: c.Version}
	var buf bytes.Buffer
	if err := modzip.Create(&buf, m, files); err != nil {
		r.Classes = []string{"create failed (outside this sub's interest)"}
		return r
	}
	dir, err := os.MkdirTemp("", "verif-c19z-")
	if err != nil {
		panic(err)
	}
	defer os.RemoveAll(dir)
	zp := filepath.Join(dir, "m.zip")
	os.WriteFile(zp, buf.Bytes(), 0o644)
	target := filepath.Join(dir, "x")
	if err := modzip.Unzip(target, m, zp); err != nil {
		r.Classes = []string{"unzip failed (C05's business)"}
		return r
	}
	prefix := c.Path + "@" + c.Version
	hz, err1 := dirhash.HashZip(zp, dirhash.Hash1)
	hd, err2 := dirhash.HashDir(target, prefix, dirhash.Hash1)
	zr, _ := zip.OpenReader(zp)
	n := 0
	var fs []file
	if zr != nil {
		for _, zf := range zr.File {
			rc, _ := zf.Open()
			b, _ := io.ReadAll(rc)
			rc.Close()
			fs = append(fs, file{Name: zf.Name, Content: b})
			n++
		}
		zr.Close()
	}
	r.NonTrivial = n >= 2
	r.Classes = []string{"module zip hashed"}
	if err1 != nil || err2 != nil || hz != hd {
		r.Fail = pbt.Failf("zip-vs-dir", "HashZip = %s (%v), HashDir of its extraction under %q = %s (%v)", hz, err1, prefix, hd, err2)
		return r
	}
	if want := formula(fs); hz != want {
		r.Fail = pbt.Failf("zip-formula", "HashZip = %s, documented formula over the archive's entries = %s", hz, want)
	}
	return r
}

var extraSubs = []pbt.Sub{
	pbt.New("modzip", 1500, 6000, genModZip, checkModZip),
}
