// Package c08: go.mod and go.work edit operations do what a simple set/map model says.
package c08

import (
	"fmt"
	"regexp"
	"strings"
	"testing"

	"pgregory.net/rapid"

	"verif/harness/internal/modedit"
	"verif/harness/internal/pbt"
)

func init() {
	pbt.Describe("cases = a well-formed start file from the modgen grammar in which every directive line carries unique marker comments (leading 'B<id>', end-of-line 'S<id>'; for retract lines they are the rationale), with duplicate requires/excludes/replaces/tools and mixed line/block forms, plus 1-25 edit operations with valid arguments drawn mostly from what the file already contains (go.mod: AddModuleStmt AddGoStmt DropGoStmt AddToolchainStmt DropToolchainStmt AddGodebug DropGodebug AddRequire AddNewRequire DropRequire SetRequire SetRequireSeparateIndirect AddExclude DropExclude AddReplace DropReplace AddRetract DropRetract AddTool DropTool AddComment SortBlocks Cleanup; go.work: AddGoStmt DropGoStmt AddToolchainStmt DropToolchainStmt AddGodebug DropGodebug AddUse AddNewUse SetUse DropUse AddReplace DropReplace SortBlocks Cleanup); 40% of the operations follow up on the key the previous one touched. Cleanup is applied before every bulk setter and at the end. Oracle: the formatted output parses strictly; per directive kind the multiset of parsed values equals the list/map model written from the doc comments; every line the model says survived and that no operation rewrote still carries both its markers on the directive with its values. Non-trivial: at least two operations and the model changed. Distinct by JSON rendering. A quarter of the start lines carry no leading comment and a fifth no end-of-line comment; the comments a surviving line must carry are taken from the start file.",
		"modedit model (written from the doc comments; AddReplace, which has none, is modelled as: empty old version collapses all replacements of the path into one wildcard at the first one's place, otherwise first exact match rewritten, other exact matches deleted, else appended)",
		"arguments are valid in the sense the strict parser needs: godebug keys/values, tool and toolchain names are bare tokens; versions canonical and matching the path's major version (invalid ones are generated only for AddExclude/AddRetract, where an error and no change is expected)",
		"blocks of retract and module directives carry no block-level comments in the start files: when Cleanup collapses a one-line commented block the block's comment joins the line's and the rationale/deprecation text would legitimately grow")
}

func TestMain(m *testing.M) { pbt.Main(m) }

func genMod(t *rapid.T) modedit.Case  { return modedit.GenCase(t, false, 25, nil) }
func genWork(t *rapid.T) modedit.Case { return modedit.GenCase(t, true, 20, nil) }

var word = regexp.MustCompile(`[A-Za-z0-9]+`)

func hasWord(texts []string, w string) bool {
	for _, t := range texts {
		for _, x := range word.FindAllString(t, -1) {
			if x == w {
				return true
			}
		}
	}
	return false
}

func check(c modedit.Case) pbt.Result {
	r := pbt.Result{}
	if !modedit.OKCase(c) {
		r.Skip = true
		return r
	}
	startModel := modedit.FromSpec(c.Start)
	out, fail := modedit.Run(c)
	if fail != nil {
		r.Fail = fail
		r.NonTrivial = true
		return r
	}
	nops := 0
	for _, op := range c.Ops {
		if op.Name != "Cleanup" {
			nops++
		}
		r.Classes = append(r.Classes, op.Name)
	}
	changed := false
	for _, verb := range modedit.Verbs(c.Start.Work) {
		if fmt.Sprint(startModel.Multiset(verb)) != fmt.Sprint(out.Model.Multiset(verb)) {
			changed = true
		}
	}
	r.NonTrivial = nops >= 2 && changed
	for _, verb := range modedit.Verbs(c.Start.Work) {
		got, want := modedit.MultisetOf(out.Reparsed, verb), out.Model.Multiset(verb)
		if fmt.Sprint(got) != fmt.Sprint(want) {
			r.Fail = pbt.Failf("model-"+verb, "after %v\n%s directives in the file: %q\nmodel:                   %q\nstart:\n%s\noutput:\n%s", c.Ops, verb, got, want, c.Start.Render(), out.Text)
			return r
		}
	}
	// comment survival
	for _, e := range out.Model.Entries {
		if e.ID == 0 || e.Touched {
			continue
		}
		src, _ := c.Start.LineOf(e.ID)
		b, s := strings.Join(src.Before, " "), "" // (some lines are bare: nothing above, nothing after)
		if m := fmt.Sprintf("S%d", e.ID); strings.HasSuffix(src.Suffix, m) {
			s = m
		}
		found := false
		for _, d := range out.Reparsed {
			if d.Verb != e.Verb || d.Canon != e.Canon() || s != "" && !hasWord(d.Suffix, s) {
				continue
			}
			all := true
			for _, m := range src.Before {
				if !hasWord(d.Before, m) {
					all = false
				}
			}
			if all {
				found = true
				break
			}
		}
		if !found {
			r.Fail = pbt.Failf("comments-lost", "after %v the surviving line %s (source line %d) no longer carries its comments %s / %s\nstart:\n%s\noutput:\n%s", c.Ops, e.Canon(), e.ID, b, s, c.Start.Render(), out.Text)
			return r
		}
	}
	_ = strings.TrimSpace
	return r
}

var subs = []pbt.Sub{
	pbt.New("gomod", 8000, 30000, genMod, check),
	pbt.New("gowork", 3000, 10000, genWork, check),
}

func TestGen(t *testing.T)    { pbt.RunAll(t, subs) }
func TestReplay(t *testing.T) { pbt.Replay(t, subs) }
