// Package c06: path validity rules and path/version matching follow the documented rules.
package c06

import (
	"fmt"
	"regexp"
	"strings"
	"testing"
	"unicode/utf8"

	"golang.org/x/mod/module"
	"pgregory.net/rapid"

	"verif/harness/internal/gen"
	"verif/harness/internal/pbt"
	ref "verif/harness/internal/ref/pathref"
	"verif/harness/internal/ref/semverref"
)

func init() {
	pbt.Describe("paths from an element-wise grammar (domain-like first elements, plain/upper-case words, Windows reserved names in every case and with extensions, ~digits short-name forms around dots, leading/trailing/multiple dots, Unicode letters with special case folds, every ASCII punctuation character at first/middle/last position, /vN and gopkg.in .vN[-unstable] tails incl. malformed ones, empty elements, leading/trailing/double slashes, invalid UTF-8) plus 0-2 byte-level mutations and arbitrary strings; versions from the C04 grammar biased to the path's major; comma-separated glob lists from path-derived patterns. Oracle: independent declarative rule model (pathref). Non-trivial: predicates = valid UTF-8 with at least one element that is a valid file-name element; check = path valid as module path; globs = at least one non-empty well-formed pattern and a non-empty target. Distinct by JSON rendering.",
		"pathref transcribes the doc comments of module.go; where docs and the pinned tests disagree the tests win (two dots in a row accepted; short-name rule applies to the part before the first dot)",
		"gopkg.in paths ending .v0-unstable are left unasserted (documentation does not settle them); counted as skipped",
		"path.Match of the standard library is the documented glob definition")
}

func TestMain(m *testing.M) { pbt.Main(m) }

type pathCase struct{ P string }

func genPath(t *rapid.T) pathCase { return pathCase{gen.PathLike(t)} }

var majorShape = regexp.MustCompile(`\A(|/v([2-9]|[1-9][0-9]+)|\.v(0|[1-9][0-9]*)(-unstable)?)\z`)

func checkPath(c pathCase) pbt.Result {
	p := c.P
	r := pbt.Result{}
	gotM, gotI, gotF := module.CheckPath(p) == nil, module.CheckImportPath(p) == nil, module.CheckFilePath(p) == nil
	wantM, wantI, wantF := ref.Valid(p, ref.Module), ref.Valid(p, ref.Import), ref.Valid(p, ref.File)
	_, _, _, unspec := ref.Split(p)
	if utf8.ValidString(p) && p != "" {
		for _, e := range strings.Split(p, "/") {
			if ref.ElemOK(e, ref.File) {
				r.NonTrivial = true
			}
		}
	}
	r.Classes = []string{fmt.Sprintf("accept m=%v i=%v f=%v", wantM, wantI, wantF)}
	if unspec {
		// .v0-unstable: only the module predicate depends on it
		r.Skip = true
		r.Classes = append(r.Classes, "unspecified .v0-unstable")
	} else if gotM != wantM {
		r.Fail = pbt.Failf("module-path", "CheckPath(%q) accepted=%v, rules say %v (err=%v)", p, gotM, wantM, module.CheckPath(p))
		return r
	}
	if gotI != wantI {
		r.Fail = pbt.Failf("import-path", "CheckImportPath(%q) accepted=%v, rules say %v", p, gotI, wantI)
		return r
	}
	if gotF != wantF {
		r.Fail = pbt.Failf("file-path", "CheckFilePath(%q) accepted=%v, rules say %v", p, gotF, wantF)
		return r
	}
	if gotM && !gotI || gotI && !gotF {
		r.Fail = pbt.Failf("inclusion", "%q: module=%v import=%v file=%v breaks module => import => file", p, gotM, gotI, gotF)
		return r
	}
	prefix, major, ok := module.SplitPathVersion(p)
	if ok && prefix+major != p {
		r.Fail = pbt.Failf("split-concat", "SplitPathVersion(%q)=(%q,%q,true): prefix+major != path", p, prefix, major)
		return r
	}
	if gotM && !unspec {
		if !ok {
			r.Fail = pbt.Failf("split-ok", "valid module path %q but SplitPathVersion ok=false", p)
			return r
		}
		if !majorShape.MatchString(major) {
			r.Fail = pbt.Failf("split-shape", "SplitPathVersion(%q) major %q is not empty, /vN (N>=2) or .vN[-unstable]", p, major)
			return r
		}
		if strings.HasPrefix(major, ".") != strings.HasPrefix(p, "gopkg.in/") {
			r.Fail = pbt.Failf("split-gopkg", "SplitPathVersion(%q) major %q: dot form iff gopkg.in", p, major)
			return r
		}
		wp, wm, wok, _ := ref.Split(p)
		if wp != prefix || wm != major || wok != ok {
			r.Fail = pbt.Failf("split-model", "SplitPathVersion(%q)=(%q,%q,%v), model (%q,%q,%v)", p, prefix, major, ok, wp, wm, wok)
			return r
		}
		r.Classes = append(r.Classes, "major="+strings.TrimRight(major, "0123456789"))
	}
	return r
}

type checkCase struct{ P, V string }

func genCheck(t *rapid.T) checkCase {
	var p string
	if rapid.IntRange(0, 9).Draw(t, "pk") < 7 {
		p = gen.ValidModulePath(t)
	} else {
		p = gen.PathLike(t)
	}
	var v string
	k := rapid.IntRange(0, 9).Draw(t, "vk")
	if k < 6 {
		// bias the major to the path's suffix
		_, major, _, _ := ref.Split(p)
		parts := gen.Parts(t, false)
		if len(parts.Nums) > 0 {
			m := strings.TrimSuffix(strings.TrimLeft(major, "/."), "-unstable")
			switch {
			case strings.HasPrefix(m, "v") && k < 5:
				parts.Nums[0] = m[1:]
			case k < 3:
				parts.Nums[0] = []string{"0", "1", "2"}[rapid.IntRange(0, 2).Draw(t, "m01")]
			}
		}
		if k == 0 {
			parts.Build = []string{"incompatible"}
			if len(parts.Nums) != 3 {
				parts.Nums = []string{"2", "0", "0"}
			}
		}
		if k == 1 {
			parts = gen.VerParts{Prefix: "v", Nums: []string{"0", "0", "0"}, Pre: []string{"20161208181325", "20d25e280405"}}
		}
		v = parts.String()
	} else {
		v, _ = gen.VersionString(t)
	}
	return checkCase{p, v}
}

func checkCheck(c checkCase) pbt.Result {
	r := pbt.Result{}
	want, unspec := ref.CheckOK(c.P, c.V)
	if unspec {
		r.Skip = true
		return r
	}
	r.NonTrivial = ref.Valid(c.P, ref.Module)
	got := module.Check(c.P, c.V) == nil
	r.Classes = []string{fmt.Sprintf("pathvalid=%v versionvalid=%v ok=%v", ref.Valid(c.P, ref.Module), semverref.IsValid(c.V), want)}
	if got != want {
		r.Fail = pbt.Failf("check", "Check(%q,%q) accepted=%v, rules say %v (err=%v)", c.P, c.V, got, want, module.Check(c.P, c.V))
		return r
	}
	if ref.Valid(c.P, ref.Module) {
		_, major, _ := module.SplitPathVersion(c.P)
		e := module.CheckPathMajor(c.V, major)
		if (e == nil) != module.MatchPathMajor(c.V, major) {
			r.Fail = pbt.Failf("match-iff-check", "CheckPathMajor(%q,%q)=%v but MatchPathMajor=%v", c.V, major, e, module.MatchPathMajor(c.V, major))
			return r
		}
		if semverref.IsValid(c.V) && (e == nil) != ref.MajorMatches(c.V, major) {
			r.Fail = pbt.Failf("pathmajor", "CheckPathMajor(%q,%q)=%v, rules say match=%v", c.V, major, e, ref.MajorMatches(c.V, major))
			return r
		}
		// PathMajorPrefix: the tag prefix implied by the suffix
		wantPrefix := strings.TrimSuffix(strings.TrimLeft(major, "/."), "-unstable")
		if got := module.PathMajorPrefix(major); got != wantPrefix {
			r.Fail = pbt.Failf("pathmajorprefix", "PathMajorPrefix(%q)=%q want %q", major, got, wantPrefix)
			return r
		}
	}
	return r
}

type globCase struct{ Globs, Target string }

var globItems = []string{"*", "?", "[a-z]*", "*.com", "example.com", "github.com/*", "*/*", "*.corp.example.com", "rsc.io/private", "[", "a[", "\\", "x\\", "[a-", "", "/", "*/", "a//b", "**", "[^a]*", "golang.org/x/*", "*/x/mod", "?????.??", "\\*", "ex*/pkg", "*/*/*/*"}

func genGlob(t *rapid.T) globCase {
	target := gen.PathLike(t)
	if gen.Chance(t, 8, "deeptarget") {
		// more path elements than any small fixed table holds
		n := []int{7, 8, 9, 10, 16, 17, 33}[gen.Uniform(t, 7, "deepn")]
		el := []string{"corp.example.com"}
		for i := 1; i < n; i++ {
			el = append(el, []string{"a", "b", "c", "team", "x1"}[gen.Uniform(t, 5, "deepel")])
		}
		target = strings.Join(el, "/")
	}
	n := rapid.IntRange(0, 4).Draw(t, "n")
	var items []string
	for i := 0; i < n; i++ {
		k := rapid.IntRange(0, 9).Draw(t, "gk")
		switch {
		case k < 4:
			items = append(items, globItems[rapid.IntRange(0, len(globItems)-1).Draw(t, "gi")])
		case k < 8:
			// derive a pattern from a prefix of the target
			el := strings.Split(target, "/")
			m := rapid.IntRange(1, len(el)).Draw(t, "m")
			pre := append([]string(nil), el[:m]...)
			j := rapid.IntRange(0, m-1).Draw(t, "j")
			switch rapid.IntRange(0, 4).Draw(t, "how") {
			case 0:
				pre[j] = "*"
			case 1:
				if len(pre[j]) > 0 {
					pre[j] = pre[j][:len(pre[j])/2] + "*"
				}
			case 2:
				if len(pre[j]) > 0 {
					pre[j] = "?" + pre[j][1:]
				}
			case 3:
				// exact
			case 4:
				pre[j] = pre[j] + "x"
			}
			s := strings.Join(pre, "/")
			if rapid.IntRange(0, 4).Draw(t, "slash") == 0 {
				s += "/"
			}
			items = append(items, s)
		default:
			items = append(items, gen.MutateString(t, globItems[rapid.IntRange(0, len(globItems)-1).Draw(t, "gi")], 1, []string{"*", "?", "[", "]", "\\", "/", ",", "a", "-", "^"}))
		}
	}
	return globCase{strings.Join(items, ","), target}
}

func checkGlob(c globCase) pbt.Result {
	got, want := module.MatchPrefixPatterns(c.Globs, c.Target), ref.MatchPrefixPatterns(c.Globs, c.Target)
	r := pbt.Result{NonTrivial: strings.Trim(c.Globs, ",/") != "" && c.Target != "", Classes: []string{fmt.Sprintf("match=%v", want)}}
	if got != want {
		r.Fail = pbt.Failf("prefix-glob", "MatchPrefixPatterns(%q,%q)=%v, definition says %v", c.Globs, c.Target, got, want)
	}
	return r
}

var subs = []pbt.Sub{
	pbt.New("predicates", 150000, 400000, genPath, checkPath),
	pbt.New("check", 60000, 200000, genCheck, checkCheck),
	pbt.New("globs", 40000, 150000, genGlob, checkGlob),
}

func TestGen(t *testing.T)    { pbt.RunAll(t, subs) }
func TestReplay(t *testing.T) { pbt.Replay(t, subs) }

func FuzzPredicates(f *testing.F) {
	for _, s := range []string{"example.com/a/v2", "gopkg.in/yaml.v2-unstable", "github.com/Azure/con.txt/a~1", "a/../b", "x.y/z09~09z~09"} {
		f.Add([]byte(s))
	}
	f.Fuzz(func(t *testing.T, b []byte) {
		res := checkPath(pathCase{string(b)})
		pbt.Count("fuzz-predicates", pathCase{string(b)}, res)
		if res.Fail != nil {
			pbt.ReportFuzz(t, "predicates", pathCase{string(b)}, res.Fail)
		}
	})
}
