// Package c18: pseudo-versions round-trip and sort between their base and the next release.
package c18

import (
	"fmt"
	"math/big"
	"strings"
	"testing"
	"time"

	"golang.org/x/mod/module"
	"golang.org/x/mod/semver"
	"pgregory.net/rapid"

	"verif/harness/internal/gen"
	"verif/harness/internal/pbt"
	ref "verif/harness/internal/ref/semverref"
)

func init() {
	pbt.Describe("cases = (major, base version or none, instant, zone, revision, second instant+revision). Bases come from the C04 grammar restricted to valid versions: shortened forms, prereleases incl. -0, hyphenated and date-like identifiers (a pseudo-version used as base), +incompatible and other build metadata, patch numbers of 1-40 digits incl. all nines. Instants are uniform over edge values and the whole range 0001-01-01..9999-12-31 UTC with sub-second parts and zone offsets in [-18h,+18h]; revisions [0-9A-Za-z]{1,40}. Oracle: round trip of base/time/rev, validity under the independent semver model, base < pv < next release (by the model and by semver.Compare), no-base pv < vX.0.0, time monotonicity for any two revisions. Non-trivial: base present with a prerelease, or a patch of >=2 digits, or all nines. Distinct by JSON rendering. A third of the cases first take a sibling version apart (build suffix toggled, other revision, or the same version) and then check the answers for the version proper.",
		"semverref model (see C04)", "the UTC instant lies in years 0001-9999 (the timestamp format has four year digits)")
}

func TestMain(m *testing.M) { pbt.Main(m) }

type pvCase struct {
	Major    string
	Base     string
	Unix     int64
	Nanos    int
	ZoneOff  int
	Rev      string
	Unix2    int64
	Rev2     string
	ZoneOff2 int
	First    int `json:",omitempty"` // which sibling version is taken apart before this one: 0 none; 1 the same with the build suffix toggled; 2 the same with the other revision; 3 the same version
}

const (
	minUnix = -62135596800 // 0001-01-01T00:00:00Z
	maxUnix = 253402300799 // 9999-12-31T23:59:59Z
)

func genUnix(t *rapid.T, label string) int64 {
	switch rapid.IntRange(0, 9).Draw(t, label+"k") {
	case 0:
		return []int64{minUnix, minUnix + 1, maxUnix, maxUnix - 1, 0, -1, 1, 951782400, 1582934400, 68256000 - 1}[rapid.IntRange(0, 9).Draw(t, label+"edge")]
	case 1, 2, 3:
		return rapid.Int64Range(1262304000, 1893456000).Draw(t, label+"recent") // 2010..2030
	case 4:
		// calendar edges: ends of February in leap, century and 400-year years, year ends, first and last year
		y := []int{1, 4, 100, 400, 1600, 1900, 2000, 2024, 2100, 2400, 9600, 9999}[rapid.IntRange(0, 11).Draw(t, label+"year")]
		md := [][2]int{{2, 28}, {2, 29}, {3, 1}, {12, 31}, {1, 1}, {6, 30}}[rapid.IntRange(0, 5).Draw(t, label+"md")]
		hms := [][3]int{{0, 0, 0}, {23, 59, 59}, {12, 0, 0}, {0, 0, 1}}[rapid.IntRange(0, 3).Draw(t, label+"hms")]
		u := time.Date(y, time.Month(md[0]), md[1], hms[0], hms[1], hms[2], 0, time.UTC).Unix()
		if u < minUnix {
			u = minUnix
		}
		if u > maxUnix {
			u = maxUnix
		}
		return u
	}
	return rapid.Int64Range(minUnix, maxUnix).Draw(t, label+"any")
}

func genRev(t *rapid.T, label string) string {
	switch rapid.IntRange(0, 5).Draw(t, label+"k") {
	case 0:
		return rapid.StringMatching(`[0-9a-f]{12}`).Draw(t, label)
	case 1:
		return rapid.StringMatching(`[0-9]{1,14}`).Draw(t, label)
	case 2:
		return []string{"0", "000000000000", "00", "a", "Z", "z", "9", "0a", "A0"}[rapid.IntRange(0, 8).Draw(t, label+"e")]
	}
	return rapid.StringMatching(`[0-9A-Za-z]{1,40}`).Draw(t, label)
}

func genBase(t *rapid.T) string {
	k := rapid.IntRange(0, 19).Draw(t, "bk")
	if k < 3 {
		return ""
	}
	p := gen.Parts(t, false)
	if k < 8 && len(p.Nums) == 3 {
		// patch edge values
		p.Nums[2] = []string{"9", "99", "999999999999999999999999", "10", "100", "1099", "19", "0", "18446744073709551615", "1"}[rapid.IntRange(0, 9).Draw(t, "patch")]
	}
	if k >= 8 && k < 11 && len(p.Nums) == 3 {
		p.Pre = []string{[]string{"0", "0.0", "pre", "rc.1", "20200101000000-abcdef123456", "0.20200101000000-abcdef123456", "pre.0.20200101000000-abcdef123456", "-", "0-0", "a.0"}[rapid.IntRange(0, 9).Draw(t, "pre")]}
	}
	return p.String()
}

func genCase(t *rapid.T) pvCase {
	c := pvCase{Base: genBase(t)}
	if c.Base != "" {
		c.Major = ref.Major(c.Base)
	} else {
		c.Major = "v" + gen.Num(t, false, "major")
	}
	c.Unix = genUnix(t, "t1")
	c.Nanos = rapid.IntRange(0, 999999999).Draw(t, "ns")
	c.ZoneOff = rapid.IntRange(-18*3600, 18*3600).Draw(t, "zone")
	c.Rev = genRev(t, "rev")
	if rapid.Bool().Draw(t, "neartime") {
		c.Unix2 = c.Unix + int64(rapid.IntRange(-2, 2).Draw(t, "dt"))
		if c.Unix2 < minUnix {
			c.Unix2 = minUnix
		}
		if c.Unix2 > maxUnix {
			c.Unix2 = maxUnix
		}
	} else {
		c.Unix2 = genUnix(t, "t2")
	}
	c.Rev2 = genRev(t, "rev2")
	c.ZoneOff2 = rapid.IntRange(-18*3600, 18*3600).Draw(t, "zone2")
	if gen.Chance(t, 35, "first") {
		c.First = 1 + gen.Uniform(t, 3, "firstkind")
	}
	return c
}

func at(unix int64, nanos, zone int) time.Time {
	return time.Unix(unix, int64(nanos)).In(time.FixedZone("gen", zone))
}

func incBig(s string) string {
	n, _ := new(big.Int).SetString(s, 10)
	return n.Add(n, big.NewInt(1)).String()
}

func lessBoth(a, b string) *pbt.Failure {
	if ref.Compare(a, b) >= 0 {
		return pbt.Failf("order-model", "expected %q < %q by SemVer precedence (model says %d)", a, b, ref.Compare(a, b))
	}
	if semver.Compare(a, b) >= 0 {
		return pbt.Failf("order-impl", "expected %q < %q, semver.Compare says %d", a, b, semver.Compare(a, b))
	}
	return nil
}

func check(c pvCase) pbt.Result {
	r := pbt.Result{}
	if c.Base != "" && !ref.IsValid(c.Base) || !ref.IsValid(c.Major) || c.Unix < minUnix || c.Unix > maxUnix || c.Unix2 < minUnix || c.Unix2 > maxUnix || c.Rev == "" || c.Rev2 == "" {
		r.Skip = true
		return r
	}
	t1 := at(c.Unix, c.Nanos, c.ZoneOff)
	pv := module.PseudoVersion(c.Major, c.Base, t1, c.Rev)
	bp, _ := ref.Parse(c.Base)
	patch := bp.Patch
	if patch == "" {
		patch = "0"
	}
	allNines := c.Base != "" && strings.Trim(patch, "9") == ""
	r.NonTrivial = c.Base != "" && (bp.Pre != "" || len(patch) >= 2 || allNines)
	switch {
	case c.Base == "":
		r.Classes = append(r.Classes, "form1-nobase")
	case bp.Pre == "":
		r.Classes = append(r.Classes, "form23-release-base")
	default:
		r.Classes = append(r.Classes, "form45-prerelease-base")
	}
	if bp.Build != "" {
		r.Classes = append(r.Classes, "build="+map[bool]string{true: "+incompatible", false: "other"}[bp.Build == "+incompatible"])
	}
	if allNines {
		r.Classes = append(r.Classes, "patch-all-nines")
	}
	if c.Base != "" && (bp.Minor == "" || bp.Patch == "") {
		r.Classes = append(r.Classes, "shortened-base")
	}

	if !ref.IsValid(pv) {
		r.Fail = pbt.Failf("valid", "PseudoVersion(%q,%q,%v,%q)=%q is not a valid semantic version", c.Major, c.Base, t1, c.Rev, pv)
		return r
	}
	if !semver.IsValid(pv) || !module.IsPseudoVersion(pv) {
		r.Fail = pbt.Failf("recognised", "PseudoVersion(...)=%q: semver.IsValid=%v IsPseudoVersion=%v", pv, semver.IsValid(pv), module.IsPseudoVersion(pv))
		return r
	}
	// nothing learnt while taking a sibling version apart may show in the answers for this one
	if c.First >= 1 && c.First <= 3 {
		sib := pv
		switch {
		case c.First == 1 && c.Base != "" && bp.Build != "":
			sib = module.PseudoVersion(c.Major, strings.TrimSuffix(c.Base, bp.Build), t1, c.Rev)
		case c.First == 1 && c.Base != "":
			sib = module.PseudoVersion(c.Major, c.Base+"+incompatible", t1, c.Rev)
		case c.First == 2:
			sib = module.PseudoVersion(c.Major, c.Base, t1, c.Rev2)
		}
		module.PseudoVersionBase(sib)
		module.PseudoVersionTime(sib)
		module.PseudoVersionRev(sib)
		module.IsPseudoVersion(sib)
		r.Classes = append(r.Classes, fmt.Sprintf("sibling taken apart first (kind %d)", c.First))
	}
	wantBase := ""
	if c.Base != "" {
		wantBase = ref.Canonical(c.Base) + ref.Build(c.Base)
	}
	if b, err := module.PseudoVersionBase(pv); err != nil || b != wantBase {
		r.Fail = pbt.Failf("base", "PseudoVersionBase(%q)=(%q,%v), want %q", pv, b, err, wantBase)
		return r
	}
	wantT := time.Unix(c.Unix, 0).UTC()
	if tt, err := module.PseudoVersionTime(pv); err != nil || !tt.Equal(wantT) || tt.Location() != time.UTC {
		r.Fail = pbt.Failf("time", "PseudoVersionTime(%q)=(%v,%v), want %v in UTC", pv, tt, err, wantT)
		return r
	}
	if rev, err := module.PseudoVersionRev(pv); err != nil || rev != c.Rev {
		r.Fail = pbt.Failf("rev", "PseudoVersionRev(%q)=(%q,%v), want %q", pv, rev, err, c.Rev)
		return r
	}
	if ref.Major(pv) != c.Major {
		r.Fail = pbt.Failf("major", "pseudo-version %q does not have major %q", pv, c.Major)
		return r
	}
	if ref.Build(pv) != ref.Build(c.Base) {
		r.Fail = pbt.Failf("build", "pseudo-version %q build %q, base build %q", pv, ref.Build(pv), ref.Build(c.Base))
		return r
	}
	// order
	if c.Base == "" {
		if f := lessBoth(pv, c.Major+".0.0"); f != nil {
			r.Fail = f
			return r
		}
		if f := lessBoth(pv, c.Major+".0.0-0"); f != nil { // below every prerelease of vX.0.0 that does not start with a smaller date
			_ = f // not claimed by the property; ignore
		}
	} else {
		if f := lessBoth(c.Base, pv); f != nil {
			r.Fail = f
			return r
		}
		minor := bp.Minor
		if minor == "" {
			minor = "0"
		}
		next := "v" + bp.Major + "." + minor + "." + patch
		if bp.Pre == "" {
			next = "v" + bp.Major + "." + minor + "." + incBig(patch)
		}
		if f := lessBoth(pv, next); f != nil {
			r.Fail = f
			return r
		}
	}
	// monotone in time at second granularity, whatever the revisions and zones
	t2 := at(c.Unix2, 0, c.ZoneOff2)
	pv2 := module.PseudoVersion(c.Major, c.Base, t2, c.Rev2)
	switch {
	case c.Unix < c.Unix2:
		r.Fail = lessBoth(pv, pv2)
	case c.Unix > c.Unix2:
		r.Fail = lessBoth(pv2, pv)
	default:
		r.Classes = append(r.Classes, "same-second")
		if c.Rev == c.Rev2 && pv != pv2 {
			r.Fail = pbt.Failf("deterministic", "same base/second/rev in different zones gave %q and %q", pv, pv2)
		}
	}
	if r.Fail != nil {
		return r
	}
	// zero pseudo-version
	if z := module.ZeroPseudoVersion(c.Major); !module.IsZeroPseudoVersion(z) || !module.IsPseudoVersion(z) || ref.Major(z) != c.Major {
		r.Fail = pbt.Failf("zero", "ZeroPseudoVersion(%q)=%q not recognised", c.Major, z)
	}
	return r
}

var subs = []pbt.Sub{
	pbt.New("pseudo", 100000, 300000, genCase, check),
}

func TestGen(t *testing.T)    { pbt.RunAll(t, subs) }
func TestReplay(t *testing.T) { pbt.Replay(t, subs) }

func FuzzPseudo(f *testing.F) {
	f.Add([]byte("seed"))
	pbt.Fuzz(f, subs, "pseudo")
}

var _ = fmt.Sprint
