// Package c20: parsing is total, positioned, and lax mode accepts everything strict mode does.
package c20

import (
	"errors"
	"fmt"
	"reflect"
	"regexp"
	"strings"
	"testing"
	"unicode/utf8"

	"golang.org/x/mod/modfile"
	"pgregory.net/rapid"

	"verif/harness/internal/gen"
	"verif/harness/internal/modgen"
	"verif/harness/internal/pbt"
	"verif/harness/internal/ref/pathref"
)

func init() {
	pbt.Describe("(well-formed files also receive token-level mutations: a line cut short after any token, a token dropped, duplicated, swapped or taken from another line) total/positions: arbitrary byte strings (rapid byte slices; token soup with hostile fragments: invalid UTF-8, unterminated quotes, backslash at EOF, /* comments, stray brackets, NUL, lone CR, CRLF, long lines) and well-formed files: Parse, ParseLax, ParseWork, ModulePath must return (panics and hangs are caught by the harness), no error text contains 'internal error', and every position in errors and in the syntax tree (through hook VerifParseSyntax, raw tokens) is recomputed from the bytes: Byte in range, Line = 1+newlines before, LineRune = 1+runes since the last newline, the input at Byte starts with the token/paren/comment described, the tokens of a line are exactly the non-blank pieces between Start and End; directive-level errors point at the Start of a statement. strictlax: modgen files, and the same files with unknown directives, unknown blocks and malformed main-module-only directives inserted: strict-accepted => lax-accepted with equal module/go/require/retract values; insertions make strict fail and leave the lax values unchanged. modulepath: strict-accepted files whose module directive is a single line naming a valid import path: ModulePath == parsed path (the one known shape, a block line whose first token is the bare word 'module', is excluded by construction and re-executed as a regression). Non-trivial: a syntax tree with >=2 statements, or an error beyond byte 0; strictlax: >=1 insertion; modulepath: module path present. Distinct by JSON rendering. Token mutations also put a directive keyword or bracket in place of a token and reduce a line to a single keyword (inside a block usually the block's own verb). Empty and one-character quoted tokens occur as fragments, as arguments of every directive and as token replacements.",
		"the only error-text observation is the pattern 'internal [word ]error' (the property names it; the code says internal error, internal lexer error, internal parse error)",
		"a parser that needs more than the watchdog period is reported as a hang",
		"pathref import-path validity (see C06)")
}

func TestMain(m *testing.M) { pbt.Main(m) }

type textCase struct{ Text string }

var internalErr = regexp.MustCompile(`internal (\w+ )?error`)

// ---------------------------------------------------------------------------
// generators

var frags = []string{"module example.com/m\n", "go 1.21\n", "require (\n", ")\n", "\ta v1.0.0 // indirect\n", "require a v1.0.0\n", "replace a => ./b\n", "retract [v1.0.0, v1.1.0] // why\n", "// comment\n", "\n", "\r\n", "(", ")", "[", "]", "{", "}", ",", "\"", "`", "\\", "/*", "*/", "//", "\x00", "\xff", "\xc3", "\r", " ", "\t", "é", "=>", "\"abc", "\"a\\", "use ./x\n", "godebug a=b\n", "tool x\n", "toolchain go1.21.0\n", "exclude a v1\n", "x ( ) // c\n", "module \"quoted\"\n", "module `raw`\n", "v1.0.0", "a", "unknown directive\n", "require x (\n",
	"\"\"", "``", "replace a => \"\"\n", "use \"\"\n", "require \"\" v1.0.0\n", "module \"\"\n", "retract \"\"\n", "godebug \"\"\n", "tool \"\"\n", "toolchain \"\"\n", "go \"\"\n", "retract (\n", "\tretract\n", "\trequire\n", "\tmodule v1.0.0\n", "exclude (\n", "\texclude\n", "replace (\n", "\treplace\n", "x ( )", "exclude ()", "a b ( )\t", "require ( ) ", "\ufeff", "\ufeffmodule m\n", "\n\r", "\t\r// c\n", "\r// c\n", "// c\r\r\n", "// c\r \n", "\u2028", "\u0085", "\u00a0"}

func genText(t *rapid.T) textCase {
	switch rapid.IntRange(0, 9).Draw(t, "kind") {
	case 0:
		return textCase{string(rapid.SliceOfN(rapid.Byte(), 0, 60).Draw(t, "bytes"))}
	case 1:
		return textCase{rapid.String().Draw(t, "string")}
	case 2, 3:
		f := modgen.Gen(t, modgen.Options{Work: rapid.IntRange(0, 3).Draw(t, "work") == 0, OddPaths: true})
		s := f.Render()
		switch rapid.IntRange(0, 3).Draw(t, "mutate") {
		case 0, 1:
			s = gen.MutateString(t, s, rapid.IntRange(1, 2).Draw(t, "nm"), frags)
		case 2:
			s = mutateTokens(t, s)
		}
		return textCase{s}
	}
	n := rapid.IntRange(0, 12).Draw(t, "nfrag")
	var sb strings.Builder
	for i := 0; i < n; i++ {
		sb.WriteString(frags[rapid.IntRange(0, len(frags)-1).Draw(t, "frag")])
		if rapid.IntRange(0, 3).Draw(t, "sp") == 0 {
			sb.WriteString(" ")
		}
	}
	if gen.Chance(t, 2, "longtoken") {
		sb.WriteString(strings.Repeat("y", rapid.IntRange(300, 5000).Draw(t, "toklen")))
		sb.WriteString(" z // c\n")
	}
	if pbt.Thorough() && gen.Chance(t, 1, "longline") {
		sb.WriteString(strings.Repeat("x", 1<<20))
	}
	return textCase{sb.String()}
}

// mutateTokens changes the arity or token order of one or two lines of a well-formed file:
// a line loses its last k tokens (a directive cut short at every possible point), loses,
// duplicates or swaps a token, or receives a token of another line. Every argument-count and
// argument-shape test of the directive parsers is reachable this way.
var keywords = []string{"module", "go", "toolchain", "godebug", "require", "exclude", "replace", "retract", "tool", "use", "ignore", "(", ")", "=>",
	// empty and near-empty quoted tokens: every argument parser sees a string of length 0 or 1
	`""`, "``", `" "`, `"/"`, `"."`, `"\\"`}

func mutateTokens(t *rapid.T, s string) string {
	lines := strings.Split(s, "\n")
	var all []string
	for _, l := range lines {
		all = append(all, strings.Fields(l)...)
	}
	if len(all) == 0 {
		return s
	}
	for k := rapid.IntRange(1, 2).Draw(t, "nlines"); k > 0; k-- {
		li := gen.Uniform(t, len(lines), "line")
		f := strings.Fields(lines[li])
		if len(f) == 0 {
			continue
		}
		indent := ""
		if strings.HasPrefix(lines[li], "\t") {
			indent = "\t"
		}
		switch rapid.IntRange(0, 9).Draw(t, "tokop") {
		case 8, 9: // a new line inside a block that is nothing but the block's own verb (or another keyword)
			var inBlock []int
			verbAt := map[int]string{}
			cur := ""
			for j, l := range lines {
				ff := strings.Fields(l)
				switch {
				case len(ff) >= 2 && ff[len(ff)-1] == "(" || len(ff) >= 2 && ff[1] == "(":
					cur = ff[0]
				case len(ff) >= 1 && ff[0] == ")":
					if cur != "" {
						inBlock, verbAt[j] = append(inBlock, j), cur // (right before the closing parenthesis)
					}
					cur = ""
				case cur != "":
					inBlock, verbAt[j] = append(inBlock, j), cur
				}
			}
			if len(inBlock) == 0 {
				f = []string{keywords[gen.Uniform(t, len(keywords), "kw")]}
				break
			}
			at := inBlock[gen.Uniform(t, len(inBlock), "ownverbat")]
			word := verbAt[at]
			if gen.Chance(t, 25, "otherkw") {
				word = keywords[gen.Uniform(t, len(keywords), "kw")]
			}
			lines = append(lines[:at:at], append([]string{"\t" + word}, lines[at:]...)...)
			continue
		case 6: // a directive keyword where an argument is expected
			f[gen.Uniform(t, len(f), "tok")] = keywords[gen.Uniform(t, len(keywords), "kw")]
		case 7: // the line is nothing but a directive keyword (inside a block: the block's own verb, or another)
			f = []string{keywords[gen.Uniform(t, len(keywords), "kw")]}
			if indent != "" && gen.Chance(t, 60, "ownverb") {
				for j := li; j >= 0; j-- {
					if ff := strings.Fields(lines[j]); len(ff) >= 2 && ff[len(ff)-1] == "(" {
						f = []string{ff[0]}
						break
					}
				}
			}
		case 0, 1: // cut short
			f = f[:len(f)-rapid.IntRange(1, len(f)).Draw(t, "cut")]
		case 2: // drop one
			i := gen.Uniform(t, len(f), "tok")
			f = append(f[:i:i], f[i+1:]...)
		case 3: // duplicate one
			i := gen.Uniform(t, len(f), "tok")
			f = append(f[:i+1:i+1], f[i:]...)
		case 4: // swap two
			i, j := gen.Uniform(t, len(f), "tok"), gen.Uniform(t, len(f), "tok2")
			f[i], f[j] = f[j], f[i]
		case 5: // foreign token
			i := gen.Uniform(t, len(f)+1, "tokpos")
			x := all[gen.Uniform(t, len(all), "foreign")]
			f = append(f[:i:i], append([]string{x}, f[i:]...)...)
		}
		lines[li] = indent + strings.Join(f, " ")
	}
	return strings.Join(lines, "\n")
}

// ---------------------------------------------------------------------------
// positions

type posErr struct{ msg string }

func wantPos(input string, byteOff int) modfile.Position {
	line := 1 + strings.Count(input[:byteOff], "\n")
	last := strings.LastIndex(input[:byteOff], "\n") + 1
	runes := 0
	for b := []byte(input[last:byteOff]); len(b) > 0; {
		_, size := utf8.DecodeRune(b)
		b = b[size:]
		runes++
	}
	return modfile.Position{Line: line, LineRune: 1 + runes, Byte: byteOff}
}

func checkPos(input string, p modfile.Position, what string, prefix string) *pbt.Failure {
	if p.Byte < 0 || p.Byte > len(input) {
		return pbt.Failf("pos-range", "%s: byte offset %d outside input of length %d", what, p.Byte, len(input))
	}
	if w := wantPos(input, p.Byte); w != p {
		return pbt.Failf("pos-arithmetic", "%s: position %+v, recomputed from the bytes %+v", what, p, w)
	}
	if prefix != "" && !strings.HasPrefix(input[p.Byte:], prefix) {
		end := p.Byte + len(prefix) + 5
		if end > len(input) {
			end = len(input)
		}
		return pbt.Failf("pos-points-elsewhere", "%s: input at byte %d is %q, expected it to start with %q", what, p.Byte, input[p.Byte:end], prefix)
	}
	return nil
}

func checkComments(input string, cs []modfile.Comment, what string) *pbt.Failure {
	for i, c := range cs {
		if c.Token == "" {
			continue // blank-line placeholder, has no position
		}
		if f := checkPos(input, c.Start, fmt.Sprintf("%s comment %d", what, i), c.Token); f != nil {
			return f
		}
		if !strings.HasPrefix(c.Token, "//") {
			return pbt.Failf("comment-text", "%s comment %d: token %q does not start with //", what, i, c.Token)
		}
	}
	return nil
}

func allComments(input string, c *modfile.Comments, what string) *pbt.Failure {
	for _, g := range []struct {
		n string
		l []modfile.Comment
	}{{"before", c.Before}, {"suffix", c.Suffix}, {"after", c.After}} {
		if f := checkComments(input, g.l, what+"."+g.n); f != nil {
			return f
		}
	}
	return nil
}

// scanTokens checks that tokens are exactly the non-blank pieces of input from start, and returns the offset after the last one.
func scanTokens(input string, start int, tokens []string, what string) (int, *pbt.Failure) {
	cur := start
	for i, tok := range tokens {
		for cur < len(input) && (input[cur] == ' ' || input[cur] == '\t' || input[cur] == '\r') {
			cur++
		}
		if !strings.HasPrefix(input[cur:], tok) {
			return cur, pbt.Failf("tokens-vs-input", "%s: token %d is %q but the input continues with %q", what, i, tok, clip(input[cur:]))
		}
		cur += len(tok)
	}
	return cur, nil
}

func clip(s string) string {
	if len(s) > 30 {
		return s[:30]
	}
	return s
}

func checkLine(input string, l *modfile.Line, what string) *pbt.Failure {
	if len(l.Token) == 0 {
		return pbt.Failf("empty-line", "%s: line without tokens", what)
	}
	if f := checkPos(input, l.Start, what+" start", l.Token[0]); f != nil {
		return f
	}
	end, f := scanTokens(input, l.Start.Byte, l.Token, what)
	if f != nil {
		return f
	}
	if f := checkPos(input, l.End, what+" end", ""); f != nil {
		return f
	}
	if l.End.Byte != end {
		return pbt.Failf("line-end", "%s: End at byte %d, but the last token %q ends at byte %d", what, l.End.Byte, l.Token[len(l.Token)-1], end)
	}
	return allComments(input, &l.Comments, what)
}

func checkTree(input string, fs *modfile.FileSyntax) *pbt.Failure {
	if f := allComments(input, &fs.Comments, "file"); f != nil {
		return f
	}
	for i, st := range fs.Stmt {
		what := fmt.Sprintf("stmt %d", i)
		switch x := st.(type) {
		case *modfile.CommentBlock:
			first := ""
			for _, c := range x.Before {
				if c.Token != "" {
					first = c.Token
					break
				}
			}
			if f := checkPos(input, x.Start, what+" comment block", first); f != nil {
				return f
			}
			if f := allComments(input, &x.Comments, what); f != nil {
				return f
			}
		case *modfile.Line:
			if x.InBlock {
				return pbt.Failf("inblock-flag", "%s: top-level line marked InBlock", what)
			}
			if f := checkLine(input, x, what); f != nil {
				return f
			}
		case *modfile.LineBlock:
			if len(x.Token) == 0 {
				return pbt.Failf("empty-block-head", "%s: block without tokens", what)
			}
			if f := checkPos(input, x.Start, what+" block start", x.Token[0]); f != nil {
				return f
			}
			end, f := scanTokens(input, x.Start.Byte, x.Token, what+" block head")
			if f != nil {
				return f
			}
			if f := checkPos(input, x.LParen.Pos, what+" (", "("); f != nil {
				return f
			}
			if x.LParen.Pos.Byte < end {
				return pbt.Failf("lparen-order", "%s: '(' at byte %d before the end of the block head at %d", what, x.LParen.Pos.Byte, end)
			}
			if strings.TrimLeft(input[end:x.LParen.Pos.Byte], " \t\r") != "" {
				return pbt.Failf("lparen-gap", "%s: %q between block head and '('", what, input[end:x.LParen.Pos.Byte])
			}
			if f := checkPos(input, x.RParen.Pos, what+" )", ")"); f != nil {
				return f
			}
			prev := x.LParen.Pos.Byte
			for j, l := range x.Line {
				if !l.InBlock {
					return pbt.Failf("inblock-flag", "%s line %d: not marked InBlock", what, j)
				}
				if f := checkLine(input, l, fmt.Sprintf("%s line %d", what, j)); f != nil {
					return f
				}
				if l.Start.Byte <= prev {
					return pbt.Failf("line-order", "%s line %d starts at byte %d, not after %d", what, j, l.Start.Byte, prev)
				}
				prev = l.End.Byte
			}
			if x.RParen.Pos.Byte < prev {
				return pbt.Failf("rparen-order", "%s: ')' at byte %d before byte %d", what, x.RParen.Pos.Byte, prev)
			}
			for _, c := range []struct {
				n string
				c *modfile.Comments
			}{{"block", &x.Comments}, {"lparen", &x.LParen.Comments}, {"rparen", &x.RParen.Comments}} {
				if f := allComments(input, c.c, what+" "+c.n); f != nil {
					return f
				}
			}
			s, e := x.Span()
			if s != x.Start || e.Byte != x.RParen.Pos.Byte+1 {
				return pbt.Failf("block-span", "%s: Span() = %+v..%+v", what, s, e)
			}
		}
	}
	return nil
}

func errList(err error) modfile.ErrorList {
	var el modfile.ErrorList
	if errors.As(err, &el) {
		return el
	}
	return nil
}

func checkErrPositions(input string, err error, what string, starts map[modfile.Position]bool) *pbt.Failure {
	if err == nil {
		return nil
	}
	// the code has three self-diagnosed conditions: "internal error: ..." (a recovered panic),
	// "internal lexer error: ..." and "internal parse error: ..."
	if internalErr.MatchString(err.Error()) {
		return pbt.Failf("internal-error", "%s reports an internal error: %v", what, err)
	}
	el := errList(err)
	if el == nil {
		return pbt.Failf("error-type", "%s returned an error that is not an ErrorList: %T %v", what, err, err)
	}
	if len(el) == 0 {
		return pbt.Failf("empty-errorlist", "%s returned an empty error list", what)
	}
	for i, e := range el {
		if e.Pos.Line == 0 && e.Pos.Byte == 0 && e.Pos.LineRune == 0 {
			continue // no position
		}
		if f := checkPos(input, e.Pos, fmt.Sprintf("%s error %d (%v)", what, i, e.Err), ""); f != nil {
			return f
		}
		if starts != nil && !starts[e.Pos] {
			return pbt.Failf("error-not-at-statement", "%s error %d (%v) at %+v does not point at the start of a statement", what, i, e.Err, e.Pos)
		}
	}
	return nil
}

func stmtStarts(fs *modfile.FileSyntax) map[modfile.Position]bool {
	m := map[modfile.Position]bool{}
	for _, st := range fs.Stmt {
		switch x := st.(type) {
		case *modfile.Line:
			m[x.Start] = true
		case *modfile.LineBlock:
			m[x.Start] = true
			for _, l := range x.Line {
				m[l.Start] = true
			}
		}
	}
	return m
}

func checkText(c textCase) pbt.Result {
	r := pbt.Result{}
	input := c.Text
	data := []byte(input)
	fs, serr := modfile.VerifParseSyntax("go.mod", data)
	var starts map[modfile.Position]bool
	if serr == nil {
		r.Classes = append(r.Classes, "syntax ok")
		r.NonTrivial = len(fs.Stmt) >= 2
		if f := checkTree(input, fs); f != nil {
			r.Fail = f
			return r
		}
		starts = stmtStarts(fs)
	} else {
		r.Classes = append(r.Classes, "syntax error")
		if f := checkErrPositions(input, serr, "syntax parser", nil); f != nil {
			r.Fail = f
			return r
		}
		for _, e := range errList(serr) {
			if e.Pos.Byte > 0 {
				r.NonTrivial = true
			}
		}
	}
	// the public entry points: all return, agree with the syntax layer about syntax errors
	f1, err1 := modfile.Parse("go.mod", append([]byte(nil), data...), nil)
	f2, err2 := modfile.ParseLax("go.mod", append([]byte(nil), data...), nil)
	f3, err3 := modfile.ParseWork("go.work", append([]byte(nil), data...), nil)
	_ = modfile.ModulePath(data)
	for _, x := range []struct {
		name string
		nilF bool
		err  error
	}{{"Parse", f1 == nil, err1}, {"ParseLax", f2 == nil, err2}, {"ParseWork", f3 == nil, err3}} {
		if x.nilF == (x.err == nil) {
			r.Fail = pbt.Failf("result-xor-error", "%s returned file==nil:%v err:%v", x.name, x.nilF, x.err)
			return r
		}
		if serr != nil && x.err == nil {
			r.Fail = pbt.Failf("syntax-error-swallowed", "%s accepts input the syntax layer rejects (%v)", x.name, serr)
			return r
		}
		if f := checkErrPositions(input, x.err, x.name, starts); f != nil {
			r.Fail = f
			return r
		}
	}
	if err1 == nil {
		r.Classes = append(r.Classes, "strict ok")
		if f := strictImpliesLax(input, f1, f2, err2); f != nil {
			r.Fail = f
			return r
		}
	}
	if string(data) != input {
		r.Fail = pbt.Failf("input-modified", "the parser modified the caller's byte slice")
		return r
	}
	// The same with version fixers: one that canonicalises nothing but rejects some versions, one that
	// rejects everything. Whatever they say, the parsers return a result or a positioned error list.
	for _, fx := range []struct {
		name string
		fix  modfile.VersionFixer
	}{
		{"a fixer that rejects versions containing 1", func(path, vers string) (string, error) {
			if strings.Contains(vers, "1") {
				return "", fmt.Errorf("fixer: no version %q of %q", vers, path)
			}
			return vers, nil
		}},
		{"a fixer that rejects every version", func(path, vers string) (string, error) { return "", fmt.Errorf("fixer: rejected") }},
	} {
		g1, e1 := modfile.Parse("go.mod", append([]byte(nil), data...), fx.fix)
		g2, e2 := modfile.ParseLax("go.mod", append([]byte(nil), data...), fx.fix)
		g3, e3 := modfile.ParseWork("go.work", append([]byte(nil), data...), fx.fix)
		for _, x := range []struct {
			name string
			nilF bool
			err  error
		}{{"Parse", g1 == nil, e1}, {"ParseLax", g2 == nil, e2}, {"ParseWork", g3 == nil, e3}} {
			what := x.name + " with " + fx.name
			if x.nilF == (x.err == nil) {
				r.Fail = pbt.Failf("result-xor-error", "%s returned file==nil:%v err:%v", what, x.nilF, x.err)
				return r
			}
			if f := checkErrPositions(input, x.err, what, nil); f != nil {
				r.Fail = f
				return r
			}
		}
	}
	return r
}

// ---------------------------------------------------------------------------
// strict subset of lax

type laxValues struct {
	Module  string
	Go      string
	Require []string
	Retract []string
}

func valuesOf(f *modfile.File) laxValues {
	var v laxValues
	if f.Module != nil {
		v.Module = fmt.Sprintf("%q %q", f.Module.Mod.Path, f.Module.Deprecated)
	}
	if f.Go != nil {
		v.Go = f.Go.Version
	}
	for _, r := range f.Require {
		v.Require = append(v.Require, fmt.Sprintf("%q %q %v", r.Mod.Path, r.Mod.Version, r.Indirect))
	}
	for _, r := range f.Retract {
		v.Retract = append(v.Retract, fmt.Sprintf("%q %q %q", r.Low, r.High, r.Rationale))
	}
	return v
}

func strictImpliesLax(input string, strict, lax *modfile.File, laxErr error) *pbt.Failure {
	if laxErr != nil {
		return pbt.Failf("strict-not-lax", "strict parser accepts but lax parser rejects: %v\n%s", laxErr, input)
	}
	if a, b := valuesOf(strict), valuesOf(lax); !reflect.DeepEqual(a, b) {
		return pbt.Failf("strict-lax-values", "strict and lax values differ:\nstrict %+v\nlax    %+v\n%s", a, b, input)
	}
	return nil
}

type laxCase struct {
	File    modgen.File
	Inserts []insert
}

type insert struct {
	At   int // statement index before which the text goes (mod len+1)
	Text string
}

var unknownStmts = []string{
	"frobnicate x y\n",
	"ignore ./dir\n",
	"future (\n\ta b c\n\td\n)\n",
	"require future (\n\tx v1.0.0\n)\n",
	"require two words (\n\tx v1.0.0\n\ty v1.0.0\n\n\t// c\n\tz\n)\n",
	"unknownblock ( )\n",
	"replace garbage\n",
	"exclude only-one-arg\n",
	"exclude (\n\ta b c d\n)\n",
	"godebug nokeyvalue\n",
	"tool a b\n",
	"toolchain not-a-toolchain\n",
	"replace a v1 => b v1 extra tokens\n",
	"x \"quoted arg\" `raw arg` [1, 2] {3}\n",
	"// just a comment\nnewverb 1.2.3 // with suffix\n",
	"ignore (\n\t./a\n\t./b\n)\n",
}

func genLax(t *rapid.T) laxCase {
	f := modgen.Gen(t, modgen.Options{OddPaths: true})
	c := laxCase{File: f}
	n := rapid.IntRange(0, 3).Draw(t, "ninserts")
	for i := 0; i < n; i++ {
		c.Inserts = append(c.Inserts, insert{At: rapid.IntRange(0, 12).Draw(t, "at"), Text: unknownStmts[rapid.IntRange(0, len(unknownStmts)-1).Draw(t, "unk")]})
	}
	return c
}

// renderWithInserts renders statement by statement so that insertions land between statements.
func renderWithInserts(c laxCase) (plain, with string) {
	f := c.File
	f.CRLF, f.NoFinal = false, false
	plain = f.Render()
	var parts []string
	for i := range f.Stmts {
		g := f
		g.Stmts = f.Stmts[i : i+1]
		g.After = nil
		parts = append(parts, g.Render())
	}
	ins := map[int][]string{}
	for _, in := range c.Inserts {
		k := in.At % (len(parts) + 1)
		ins[k] = append(ins[k], in.Text)
	}
	var sb strings.Builder
	for i := 0; i <= len(parts); i++ {
		for _, s := range ins[i] {
			sb.WriteString("\n" + s + "\n")
		}
		if i < len(parts) {
			sb.WriteString(parts[i])
		}
	}
	return plain, sb.String()
}

func checkLax(c laxCase) pbt.Result {
	r := pbt.Result{NonTrivial: len(c.Inserts) > 0}
	if len(c.Inserts) > 8 {
		r.Skip = true
		return r
	}
	for _, in := range c.Inserts {
		ok := false
		for _, u := range unknownStmts {
			if u == in.Text {
				ok = true
			}
		}
		if !ok || in.At < 0 {
			r.Skip = true
			return r
		}
	}
	plain, with := renderWithInserts(c)
	// the statement-wise rendering must mean the same as the whole-file rendering
	s0, err := modfile.Parse("go.mod", []byte(plain), nil)
	if err != nil {
		r.Fail = pbt.Failf("wellformed-rejected", "strict parser rejects a well-formed file: %v\n%s", err, plain)
		return r
	}
	l0, err := modfile.ParseLax("go.mod", []byte(plain), nil)
	if f := strictImpliesLax(plain, s0, l0, err); f != nil {
		r.Fail = f
		return r
	}
	if len(c.Inserts) == 0 {
		return r
	}
	if _, err := modfile.Parse("go.mod", []byte(with), nil); err == nil {
		r.Fail = pbt.Failf("strict-accepts-unknown", "strict parser accepts a file with unknown or malformed directives:\n%s", with)
		return r
	}
	l1, err := modfile.ParseLax("go.mod", []byte(with), nil)
	if err != nil {
		r.Fail = pbt.Failf("lax-rejects-unknown", "lax parser rejects a file that only adds unknown directives/blocks: %v\n%s", err, with)
		return r
	}
	if a, b := valuesOf(l0), valuesOf(l1); !reflect.DeepEqual(a, b) {
		r.Fail = pbt.Failf("lax-values-changed", "unknown directives changed the lax values:\nwithout %+v\nwith    %+v\n%s", a, b, with)
	}
	return r
}

// ---------------------------------------------------------------------------
// ModulePath

type mpCase struct {
	File   modgen.File
	Path   string // module path to use
	Style  int    // 0 bare, 1 quoted, 2 bare + comment, 3 quoted + comment, 4 extra spaces / tabs
	Before string // text placed before everything
	At     int    `json:",omitempty"` // the module line follows the first At statements of the file (0: it comes first)
}

var mpPaths = []string{"example.com/m", "example.com/a/v2", "gopkg.in/yaml.v2", "m", "std/internal", "example.com/Upper", "a.b/c~d", "module", "module.example.com/x", "modules", "example.com/module", "x+y/z", "example.com/m.v2"}
var mpLong = []string{"LONGCOMMENT:65535", "LONGCOMMENT:65536", "LONGCOMMENT:70000", "LONGGO:66000", "LONGCOMMENT:300000"}
var mpBefore = []string{"", "// module other.example/x\n", "\n\n", "// comment\n\n", "go 1.21\n", "require modulex.example/y v1.0.0\n", "require (\n\tmodule.example/z v1.0.0\n\tmodules v1.0.0\n)\n", "godebug module=1\n", "tool module\n", "tool (\n\tmodule\n)\n", "\t \n"}

func genBefore(t *rapid.T) string {
	if gen.Chance(t, 3, "longbefore") {
		return mpLong[gen.Uniform(t, len(mpLong), "long")]
	}
	return mpBefore[gen.Uniform(t, len(mpBefore), "before")]
}

func genMP(t *rapid.T) mpCase {
	f := modgen.Gen(t, modgen.Options{OddPaths: true})
	// drop the generated module statement; the case supplies its own as a single line
	var keep []modgen.Stmt
	for _, s := range f.Stmts {
		if s.Verb != "module" && s.Verb != "retract" {
			keep = append(keep, s)
		}
	}
	f.Stmts = keep
	c := mpCase{File: f, Path: mpPaths[rapid.IntRange(0, len(mpPaths)-1).Draw(t, "path")], Style: rapid.IntRange(0, 4).Draw(t, "style"), Before: genBefore(t)}
	if len(f.Stmts) > 0 && gen.Chance(t, 50, "modulelater") {
		c.At = 1 + gen.Uniform(t, len(f.Stmts), "moduleat") // the module directive may stand anywhere among the statements
	}
	return c
}

// knownShape reports the one recorded disagreement: a block line whose first token is the bare word "module"
// followed by more tokens.
func knownShape(text string) bool {
	fs, err := modfile.VerifParseSyntax("go.mod", []byte(text))
	if err != nil {
		return false
	}
	for _, st := range fs.Stmt {
		if b, ok := st.(*modfile.LineBlock); ok {
			for _, l := range b.Line {
				if len(l.Token) >= 2 && l.Token[0] == "module" {
					return true
				}
			}
		}
	}
	return false
}

func checkMPText(text string, r *pbt.Result) {
	f, err := modfile.Parse("go.mod", []byte(text), nil)
	if err != nil || f.Module == nil || f.Module.Syntax == nil || f.Module.Syntax.InBlock {
		r.Classes = append(r.Classes, "outside domain (rejected or no single-line module directive)")
		return
	}
	if !pathref.Valid(f.Module.Mod.Path, pathref.Import) {
		r.Classes = append(r.Classes, "outside domain (not a valid import path)")
		return
	}
	r.NonTrivial = true
	got := modfile.ModulePath([]byte(text))
	if got != f.Module.Mod.Path {
		r.Fail = pbt.Failf("modulepath-disagrees", "ModulePath = %q, strict parser says %q\n%s", got, f.Module.Mod.Path, text)
	}
}

func checkMP(c mpCase) pbt.Result {
	r := pbt.Result{}
	line := "module "
	switch c.Style {
	case 0:
		line += c.Path
	case 1:
		line += fmt.Sprintf("%q", c.Path)
	case 2:
		line += c.Path + " // comment with \"quotes\" and module x"
	case 3:
		line += fmt.Sprintf("%q", c.Path) + "\t// c"
	default:
		line = "module \t  " + c.Path + "  \t"
	}
	f := c.File
	f.CRLF = false
	before := c.Before
	if strings.HasPrefix(before, "LONGCOMMENT:") || strings.HasPrefix(before, "LONGGO:") {
		// a very long line in front of the module directive (line buffers have limits; the parsers do not)
		var n int
		fmt.Sscanf(before[strings.Index(before, ":")+1:], "%d", &n)
		if n < 10 || n > 2000000 {
			r.Skip = true
			return r
		}
		if strings.HasPrefix(before, "LONGGO:") {
			before = "go 1.21 // " + strings.Repeat("c", n-12) + "\n"
			// the file must not have a second go directive
			var keep []modgen.Stmt
			for _, s := range f.Stmts {
				if s.Verb != "go" {
					keep = append(keep, s)
				}
			}
			f.Stmts = keep
		} else {
			before = "// " + strings.Repeat("c", n-4) + "\n"
		}
		r.Classes = append(r.Classes, "long line before the module directive")
	}
	text := before + line + "\n" + f.Render()
	if c.At > 0 && c.At <= len(f.Stmts) {
		head, tail := f, f
		head.Stmts, head.After, head.NoFinal = f.Stmts[:c.At], nil, false
		tail.Stmts = f.Stmts[c.At:]
		text = before + head.Render() + line + "\n" + tail.Render()
	}
	if c.File.CRLF {
		text = strings.ReplaceAll(text, "\n", "\r\n")
	}
	if knownShape(text) {
		r.Skip = true
		r.Classes = append(r.Classes, "excluded: known-finding shape (block line starting with bare 'module')")
		return r
	}
	checkMPText(text, &r)
	return r
}

// raw text variant, used by the regression replay of the known finding and by the fuzzer
func checkMPRaw(c textCase) pbt.Result {
	r := pbt.Result{}
	checkMPText(c.Text, &r)
	return r
}

func genMPRaw(t *rapid.T) textCase {
	c := genMP(t)
	f := c.File
	text := c.Before + "module " + c.Path + "\n" + f.Render()
	if c.At > 0 && c.At <= len(f.Stmts) {
		head, tail := f, f
		head.Stmts, head.After, head.NoFinal = f.Stmts[:c.At], nil, false
		tail.Stmts = f.Stmts[c.At:]
		text = c.Before + head.Render() + "module " + c.Path + "\n" + tail.Render()
	}
	if knownShape(text) {
		text = "module " + c.Path + "\n"
	}
	return textCase{text}
}

var subs = []pbt.Sub{
	pbt.New("text", 60000, 200000, genText, checkText),
	pbt.New("strictlax", 15000, 50000, genLax, checkLax),
	pbt.New("modulepath", 15000, 50000, genMP, checkMP),
	pbt.New("modulepath-raw", 3000, 10000, genMPRaw, checkMPRaw),
}

func TestGen(t *testing.T)    { pbt.RunAll(t, subs) }
func TestReplay(t *testing.T) { pbt.Replay(t, subs) }

func FuzzText(f *testing.F) {
	for _, s := range []string{"module x\n\nrequire (\n\ta v1.0.0 // indirect\n)\n", "x ( ) // c\n", "a (b\n", "\"abc", "/* c */", "module \"a\\\n", "use (\n./a\n)\nreplace x => ./y\n"} {
		f.Add([]byte(s))
	}
	f.Fuzz(func(t *testing.T, b []byte) {
		c := textCase{string(b)}
		res := checkText(c)
		pbt.Count("fuzz-text", c, res)
		if res.Fail != nil {
			pbt.ReportFuzz(t, "text", c, res.Fail)
		}
	})
}
