// Package c17: which files belong in a module zip is a fixed function of the tree.
package c17

import (
	"archive/zip"
	"bytes"
	"fmt"
	"io"
	"os"
	"path/filepath"
	"sort"
	"strings"
	"testing"

	"golang.org/x/mod/module"
	modzip "golang.org/x/mod/zip"
	"pgregory.net/rapid"

	"verif/harness/internal/gen"
	"verif/harness/internal/pbt"
	"verif/harness/internal/ref/zipref"
	"verif/harness/internal/zipgen"
)

func init() {
	pbt.Describe("list: abstract file lists from the C05 generator (all name, mode and size variety, 15 kinds of root go.mod) presented in a generated order: every entry is classified valid/omitted/invalid exactly as the reference classifier says (vendored packages with the pre-1.24 and 1.24+ variants, nested modules incl. mis-cased and non-regular go.mod, VCS metadata file, symlinks and irregular files omitted; unclean, absolute, ill-formed, colliding, mis-cased go.mod, oversized go.mod/LICENSE invalid; first report per path); SizeError asserted outside the band where an oversized (hence invalid) go.mod/LICENSE is counted into the total; permuting the list leaves Omitted unchanged and, when no collision group exists, Valid and Invalid too. dir: real directory trees written to a scratch directory containing only regular files and directories and no VCS metadata directories (vendor directories at the root and nested, vendor/modules.txt, pkg/vendor/vendor.go, nested go.mod incl. GO.MOD and a directory named go.mod, .hg_archival.txt, regular files named .git/.hg/.svn/.bzr/.gitignore, reserved and odd names): CreateFromDir(d) and Create(files of d listed by the harness, lexically and shuffled) fail or succeed together with the same entry set and contents; CheckDir(d) and CheckFiles(files of d) report the same valid and invalid paths. Non-trivial: list = at least one entry omitted by the vendor or nested-module rule and at least one valid; dir = tree with >=2 directory levels and >=1 omitted file. Distinct by JSON rendering.",
		"zipref reference classifier", "directory trees contain only regular files and directories and no .git/.hg/.svn/.bzr directories (the property's domain)", "case-fold-colliding names are not written to real trees (they are exercised by the list sub)")
}

func TestMain(m *testing.M) { pbt.Main(m) }

// ---- list

type listCase struct {
	L    zipgen.ListCase
	Perm []int
}

func genList(t *rapid.T) listCase {
	l := zipgen.GenList(t, true)
	idx := make([]int, len(l.Entries))
	for i := range idx {
		idx[i] = i
	}
	return listCase{l, rapid.Permutation(idx).Draw(t, "perm")}
}

func sortedCopy(s []string) []string {
	o := append([]string{}, s...)
	sort.Strings(o)
	return o
}

func errPaths(es []modzip.FileError) []string {
	var o []string
	for _, e := range es {
		o = append(o, e.Path)
	}
	return o
}

func runCheck(c zipgen.ListCase) (modzip.CheckedFiles, zipref.Report, *pbt.Failure) {
	var files []modzip.File
	var ms []zipref.Member
	for _, e := range c.Entries {
		files = append(files, zipgen.File{E: e})
		ms = append(ms, e.Member())
	}
	cf, err := modzip.CheckFiles(files)
	want := zipref.CheckFiles(ms, c.Post124())
	if fmt.Sprint(sortedCopy(cf.Valid)) != fmt.Sprint(sortedCopy(want.Valid)) {
		return cf, want, pbt.Failf("valid-set", "CheckFiles.Valid = %q, rules say %q (post-1.24 vendoring: %v)", cf.Valid, want.Valid, c.Post124())
	}
	if fmt.Sprint(sortedCopy(errPaths(cf.Omitted))) != fmt.Sprint(sortedCopy(want.Omitted)) {
		return cf, want, pbt.Failf("omitted-set", "CheckFiles.Omitted = %q, rules say %q (post-1.24 vendoring: %v)", errPaths(cf.Omitted), want.Omitted, c.Post124())
	}
	if fmt.Sprint(sortedCopy(errPaths(cf.Invalid))) != fmt.Sprint(sortedCopy(want.Invalid)) {
		return cf, want, pbt.Failf("invalid-set", "CheckFiles.Invalid = %q, rules say %q", errPaths(cf.Invalid), want.Invalid)
	}
	// exactly one class per entry: the sizes of the three lists account for every entry
	// (reports are de-duplicated per path, so count entries through the model's per-entry classes)
	nv := 0
	for _, cl := range want.Classes {
		if cl == zipref.Valid {
			nv++
		}
	}
	if len(cf.Valid) != nv {
		return cf, want, pbt.Failf("valid-count", "%d entries are valid by the rules, CheckFiles lists %d", nv, len(cf.Valid))
	}
	for _, p := range cf.Valid {
		for _, q := range append(errPaths(cf.Omitted), errPaths(cf.Invalid)...) {
			if p == q {
				// legitimate only for duplicate paths (first valid, second "multiple entries")
				n := 0
				for _, e := range c.Entries {
					if e.Name == p {
						n++
					}
				}
				if n < 2 {
					return cf, want, pbt.Failf("two-classes", "path %q is reported both valid and omitted/invalid", p)
				}
			}
		}
	}
	if want.ValidSize > zipref.MaxZipFile && cf.SizeError == nil {
		return cf, want, pbt.Failf("size-error-missing", "valid files total %d bytes but SizeError is nil", want.ValidSize)
	}
	if want.CountedSize <= zipref.MaxZipFile && cf.SizeError != nil {
		return cf, want, pbt.Failf("size-error-spurious", "files total %d bytes but SizeError = %v", want.CountedSize, cf.SizeError)
	}
	if (err == nil) != (cf.SizeError == nil && len(cf.Invalid) == 0) {
		return cf, want, pbt.Failf("checkfiles-error", "CheckFiles err=%v with %d invalid, SizeError=%v", err, len(cf.Invalid), cf.SizeError)
	}
	return cf, want, nil
}

func checkList(c listCase) pbt.Result {
	r := pbt.Result{}
	if !zipgen.OKList(c.L) || len(c.Perm) != len(c.L.Entries) {
		r.Skip = true
		return r
	}
	seen := map[int]bool{}
	for _, i := range c.Perm {
		if i < 0 || i >= len(c.Perm) || seen[i] {
			r.Skip = true
			return r
		}
		seen[i] = true
	}
	cf, want, fail := runCheck(c.L)
	if fail != nil {
		r.Fail = fail
		return r
	}
	vendorOrNested := false
	collision := false
	{
		// classification for the evidence: did the vendor / nested-module rules fire?
		post := c.L.Post124()
		for i, e := range c.L.Entries {
			if want.Classes[i] == zipref.Omitted && e.Mode == "file" && e.Name != ".hg_archival.txt" {
				vendorOrNested = true
				if zipref.Vendored(e.Name, post) != zipref.Vendored(e.Name, !post) {
					r.Classes = append(r.Classes, "vendor rule differs between go versions")
				}
			}
		}
		// a collision group exists if any two distinct entries are fold-equal or one is a directory prefix of another
		for i, a := range c.L.Entries {
			for j, b := range c.L.Entries {
				if i < j && (strings.EqualFold(a.Name, b.Name) || strings.HasPrefix(strings.ToLower(a.Name), strings.ToLower(b.Name)+"/") || strings.HasPrefix(strings.ToLower(b.Name), strings.ToLower(a.Name)+"/") || dirFold(a.Name, b.Name)) {
					collision = true
				}
			}
		}
	}
	r.NonTrivial = vendorOrNested && len(cf.Valid) > 0
	if c.L.Post124() {
		r.Classes = append(r.Classes, "go>=1.24")
	} else {
		r.Classes = append(r.Classes, "go<1.24 or none")
	}
	// permutation
	p := c.L
	p.Entries = nil
	for _, i := range c.Perm {
		p.Entries = append(p.Entries, c.L.Entries[i])
	}
	cf2, _, fail := runCheck(p)
	if fail != nil {
		fail.Msg = "after permuting the list: " + fail.Msg
		r.Fail = fail
		return r
	}
	if fmt.Sprint(sortedCopy(errPaths(cf.Omitted))) != fmt.Sprint(sortedCopy(errPaths(cf2.Omitted))) && !collision {
		r.Fail = pbt.Failf("order-dependent-omitted", "Omitted depends on the order of the list: %q vs %q", errPaths(cf.Omitted), errPaths(cf2.Omitted))
		return r
	}
	if !collision {
		if fmt.Sprint(sortedCopy(cf.Valid)) != fmt.Sprint(sortedCopy(cf2.Valid)) || fmt.Sprint(sortedCopy(errPaths(cf.Invalid))) != fmt.Sprint(sortedCopy(errPaths(cf2.Invalid))) {
			r.Fail = pbt.Failf("order-dependent", "without any collision group, Valid/Invalid depend on the order: %q/%q vs %q/%q", cf.Valid, errPaths(cf.Invalid), cf2.Valid, errPaths(cf2.Invalid))
		}
	} else {
		r.Classes = append(r.Classes, "collision group present")
	}
	return r
}

// dirFold reports whether some directory prefix of a is fold-equal (but not equal) to a directory prefix of b.
func dirFold(a, b string) bool {
	as, bs := strings.Split(a, "/"), strings.Split(b, "/")
	for i := 1; i <= len(as); i++ {
		for j := 1; j <= len(bs); j++ {
			x, y := strings.Join(as[:i], "/"), strings.Join(bs[:j], "/")
			if x != y && strings.EqualFold(x, y) {
				return true
			}
		}
	}
	return false
}

// ---- directory trees

type dirCase struct {
	Path, Version string
	GoMod         int
	Files         []zipgen.Entry // regular files only, clean relative names, no collisions
	EmptyDirs     []string
	Shuffle       []int
	Spelling      int `json:",omitempty"` // how the directory is named to CheckDir and CreateFromDir: 0 clean; 1 trailing separator; 2 "/./" inside; 3 doubled separator; 4 "/other/../" inside
}

var treeDirs = []string{"", "", "a/", "a/b/", "vendor/", "vendor/x/", "vendor/x/y/", "pkg/vendor/", "pkg/vendor/z/", "pkg/vendor/z/w/", "vendor/vendor/", "sub/", "sub/deep/", "sub/vendor/q/", "sub2/", "sub2/inner/", "nest/go.mod/", "internal/", "é/", "x y/", "weird[1]/",
	// vendor directories below top-level names that sort before and after "go.mod"
	"cmd/vendor/", "a/vendor/", "api/vendor/x/", "Go/vendor/", "_x/vendor/", "go/vendor/", "gp/vendor/", "zz/vendor/"}
var treeFiles = []string{"x.go", "y.go", "go.mod", "go.mod", "LICENSE", "README.md", "modules.txt", "vendor.go", "vendor", ".hg_archival.txt", "é.go", "a b.txt", ".hidden", "z", "a~1", "main_test.go"}
var oddTreeFiles = []string{"aux.go", "nul", "f|g", "trailing.", "GO.MOD", "tab\there", "Go.Mod"}

// regular files whose names are those of VCS metadata directories (a submodule's or linked worktree's
// ".git" file): the directory rule does not apply to them
var vcsNamedFiles = []string{".git", ".hg", ".svn", ".bzr", ".gitignore", ".gitmodules"}

func genDir(t *rapid.T) dirCase {
	c := dirCase{Path: "example.com/m", Version: "v1.0.0", GoMod: -1}
	if gen.Chance(t, 85, "hasgomod") {
		c.GoMod = gen.Uniform(t, len(zipgen.GoModKinds), "gomodkind")
	}
	n := rapid.IntRange(0, 18).Draw(t, "nfiles")
	used := map[string]bool{}
	lower := map[string]bool{}
	for i := 0; i < n; i++ {
		base := treeFiles[gen.Uniform(t, len(treeFiles), "file")]
		if gen.Chance(t, 4, "oddname") {
			base = oddTreeFiles[gen.Uniform(t, len(oddTreeFiles), "oddfile")]
		}
		if gen.Chance(t, 6, "vcsname") {
			base = vcsNamedFiles[gen.Uniform(t, len(vcsNamedFiles), "vcsfile")]
		}
		name := treeDirs[gen.Uniform(t, len(treeDirs), "dir")] + base
		if name == "go.mod" {
			continue // the root go.mod is governed by GoMod
		}
		// no duplicates, no file-vs-directory clashes, no case-fold collisions on a real file system
		clash := used[name] || lower[strings.ToLower(name)]
		for u := range used {
			if strings.HasPrefix(u, name+"/") || strings.HasPrefix(name, u+"/") {
				clash = true
			}
		}
		if clash {
			continue
		}
		used[name] = true
		lower[strings.ToLower(name)] = true
		content := []byte("package p // " + name + "\n")
		if strings.HasSuffix(name, "go.mod") || strings.HasSuffix(name, "GO.MOD") {
			content = []byte("module example.com/nested\n")
		}
		c.Files = append(c.Files, zipgen.Entry{Name: name, Mode: "file", Content: content, Size: -1})
	}
	if c.GoMod >= 0 {
		c.Files = append(c.Files, zipgen.Entry{Name: "go.mod", Mode: "file", Content: []byte(zipgen.GoModKinds[c.GoMod].Content), Size: -1})
	}
	if gen.Chance(t, 20, "emptydir") {
		c.EmptyDirs = []string{[]string{"empty", "vendor/empty", "sub/empty", "a/b/c/d"}[rapid.IntRange(0, 3).Draw(t, "ed")]}
	}
	idx := make([]int, len(c.Files))
	for i := range idx {
		idx[i] = i
	}
	c.Shuffle = rapid.Permutation(idx).Draw(t, "shuffle")
	if gen.Chance(t, 25, "spelling") {
		c.Spelling = 1 + gen.Uniform(t, 4, "spellingkind")
	}
	return c
}

func okDir(c dirCase) bool {
	if len(c.Files) > 60 || len(c.Shuffle) != len(c.Files) || c.GoMod < -1 || c.GoMod >= len(zipgen.GoModKinds) {
		return false
	}
	seen := map[string]bool{}
	perm := map[int]bool{}
	for _, i := range c.Shuffle {
		if i < 0 || i >= len(c.Files) || perm[i] {
			return false
		}
		perm[i] = true
	}
	for _, f := range c.Files {
		n := f.Name
		if f.Mode != "file" || n == "" || filepath.Clean(n) != n || strings.HasPrefix(n, "/") || strings.HasPrefix(n, "..") || strings.ContainsAny(n, "\x00") || seen[strings.ToLower(n)] || len(f.Content) > 4096 {
			return false
		}
		els := strings.Split(n, "/")
		for i, el := range els {
			isDir := i < len(els)-1
			if isDir && (el == ".git" || el == ".hg" || el == ".svn" || el == ".bzr") || len(el) > 200 {
				return false
			}
		}
		seen[strings.ToLower(n)] = true
		for _, g := range c.Files {
			if strings.HasPrefix(g.Name, n+"/") {
				return false
			}
		}
	}
	for _, d := range c.EmptyDirs {
		if d == "" || filepath.Clean(d) != d || strings.HasPrefix(d, "/") || strings.HasPrefix(d, "..") {
			return false
		}
		for _, f := range c.Files {
			if f.Name == d || strings.HasPrefix(d, f.Name+"/") {
				return false
			}
		}
	}
	return true
}

type diskFile struct {
	rel, abs string
}

func (f diskFile) Path() string                 { return f.rel }
func (f diskFile) Lstat() (os.FileInfo, error)  { return os.Lstat(f.abs) }
func (f diskFile) Open() (io.ReadCloser, error) { return os.Open(f.abs) }

func zipEntries(b []byte) (map[string]string, error) {
	zr, err := zip.NewReader(bytes.NewReader(b), int64(len(b)))
	if err != nil {
		return nil, err
	}
	out := map[string]string{}
	for _, zf := range zr.File {
		rc, err := zf.Open()
		if err != nil {
			return nil, err
		}
		var buf bytes.Buffer
		buf.ReadFrom(rc)
		rc.Close()
		if _, dup := out[zf.Name]; dup {
			return nil, fmt.Errorf("duplicate entry %q", zf.Name)
		}
		out[zf.Name] = buf.String()
	}
	return out, nil
}

func keys(m map[string]string) []string {
	var o []string
	for k := range m {
		o = append(o, k)
	}
	sort.Strings(o)
	return o
}

func checkDir(c dirCase) pbt.Result {
	r := pbt.Result{}
	if !okDir(c) {
		r.Skip = true
		return r
	}
	tmp, err := os.MkdirTemp("", "verif-c17-")
	if err != nil {
		panic(err)
	}
	defer os.RemoveAll(tmp)
	root := filepath.Join(tmp, "tree")
	os.Mkdir(root, 0o755)
	// the same directory, named the way a caller might (a path from a flag or an environment variable is not clean)
	rootArg := root
	sep := string(filepath.Separator)
	switch c.Spelling {
	case 1:
		rootArg = root + sep
	case 2:
		rootArg = tmp + sep + "." + sep + "tree"
	case 3:
		rootArg = tmp + sep + sep + "tree"
	case 4:
		os.Mkdir(filepath.Join(tmp, "other"), 0o755)
		rootArg = tmp + sep + "other" + sep + ".." + sep + "tree"
	}
	levels := 0
	for _, f := range c.Files {
		p := filepath.Join(root, filepath.FromSlash(f.Name))
		if err := os.MkdirAll(filepath.Dir(p), 0o755); err != nil {
			panic(err)
		}
		if err := os.WriteFile(p, f.Content, 0o644); err != nil {
			panic(err)
		}
		if n := strings.Count(f.Name, "/"); n > levels {
			levels = n
		}
	}
	for _, d := range c.EmptyDirs {
		os.MkdirAll(filepath.Join(root, filepath.FromSlash(d)), 0o755)
	}
	m := module.Version{Path: c.Path, Version: c.Version}

	// the harness's own listing of the tree: every regular file, lexical order
	var listed []diskFile
	filepath.Walk(root, func(p string, fi os.FileInfo, err error) error {
		if err == nil && fi.Mode().IsRegular() {
			rel, _ := filepath.Rel(root, p)
			listed = append(listed, diskFile{filepath.ToSlash(rel), p})
		}
		return nil
	})
	toFiles := func(l []diskFile) []modzip.File {
		var out []modzip.File
		for _, f := range l {
			out = append(out, f)
		}
		return out
	}
	var fromDir, fromList, fromShuffled bytes.Buffer
	errDir := modzip.CreateFromDir(&fromDir, m, rootArg)
	errList := modzip.Create(&fromList, m, toFiles(listed))
	// shuffled listing
	byName := map[string]diskFile{}
	for _, f := range listed {
		byName[f.rel] = f
	}
	var shuffled []diskFile
	for _, i := range c.Shuffle {
		if f, ok := byName[c.Files[i].Name]; ok {
			shuffled = append(shuffled, f)
		}
	}
	errShuf := modzip.Create(&fromShuffled, m, toFiles(shuffled))
	if (errDir == nil) != (errList == nil) || (errDir == nil) != (errShuf == nil) {
		r.Fail = pbt.Failf("create-dir-vs-list", "CreateFromDir err=%v, Create(listed files) err=%v, Create(shuffled) err=%v for the tree %q", errDir, errList, errShuf, names(c.Files))
		return r
	}
	omitted := 0
	if errDir == nil {
		a, err1 := zipEntries(fromDir.Bytes())
		b, err2 := zipEntries(fromList.Bytes())
		s, err3 := zipEntries(fromShuffled.Bytes())
		if err1 != nil || err2 != nil || err3 != nil {
			r.Fail = pbt.Failf("archive-unreadable", "created archives unreadable: %v %v %v", err1, err2, err3)
			return r
		}
		if fmt.Sprint(keys(a)) != fmt.Sprint(keys(b)) || fmt.Sprint(keys(a)) != fmt.Sprint(keys(s)) {
			r.Fail = pbt.Failf("entries-dir-vs-list", "CreateFromDir includes %q, Create from the list of the same files includes %q (shuffled: %q)", keys(a), keys(b), keys(s))
			return r
		}
		for k, v := range a {
			if b[k] != v || s[k] != v {
				r.Fail = pbt.Failf("content-dir-vs-list", "entry %q has different content in the two archives", k)
				return r
			}
		}
		omitted = len(listed) - len(a)
		// and the entries are exactly the files the reference classifier calls valid
		var ms []zipref.Member
		for _, f := range listed {
			fi, _ := os.Lstat(f.abs)
			ms = append(ms, zipref.Member{Path: f.rel, Regular: true, Size: fi.Size()})
		}
		post := c.GoMod >= 0 && zipgen.GoModKinds[c.GoMod].Post124
		want := zipref.CheckFiles(ms, post)
		var wantNames []string
		for _, p := range want.Valid {
			wantNames = append(wantNames, c.Path+"@"+c.Version+"/"+p)
		}
		if fmt.Sprint(keys(a)) != fmt.Sprint(sortedCopy(wantNames)) {
			r.Fail = pbt.Failf("entries-vs-rules", "archive from directory has entries %q, the rules select %q (post-1.24 vendoring: %v)", keys(a), sortedCopy(wantNames), post)
			return r
		}
	}
	// CheckDir vs CheckFiles on the files of the directory
	cd, errCD := modzip.CheckDir(rootArg)
	cl, errCL := modzip.CheckFiles(toFiles(listed))
	rel := func(paths []string) []string {
		var o []string
		for _, p := range paths {
			q, err := filepath.Rel(root, p)
			if err != nil {
				q = p
			}
			o = append(o, filepath.ToSlash(q))
		}
		sort.Strings(o)
		return o
	}
	if fmt.Sprint(rel(cd.Valid)) != fmt.Sprint(sortedCopy(cl.Valid)) {
		r.Fail = pbt.Failf("checkdir-valid", "CheckDir valid %q, CheckFiles of the same files valid %q", rel(cd.Valid), sortedCopy(cl.Valid))
		return r
	}
	if fmt.Sprint(rel(errPaths(cd.Invalid))) != fmt.Sprint(sortedCopy(errPaths(cl.Invalid))) {
		r.Fail = pbt.Failf("checkdir-invalid", "CheckDir invalid %q, CheckFiles of the same files invalid %q", rel(errPaths(cd.Invalid)), sortedCopy(errPaths(cl.Invalid)))
		return r
	}
	if (errCD == nil) != (errCL == nil) || (errCD == nil) != (errDir == nil) {
		r.Fail = pbt.Failf("checkdir-error", "CheckDir err=%v, CheckFiles err=%v, CreateFromDir err=%v", errCD, errCL, errDir)
		return r
	}
	r.NonTrivial = levels >= 2 && omitted > 0
	if errDir != nil {
		r.Classes = append(r.Classes, "create fails")
	} else {
		r.Classes = append(r.Classes, "create ok")
	}
	return r
}

func names(es []zipgen.Entry) []string {
	var o []string
	for _, e := range es {
		o = append(o, e.Name)
	}
	return o
}

var subs = []pbt.Sub{
	pbt.New("list", 8000, 30000, genList, checkList),
	pbt.New("dir", 1500, 6000, genDir, checkDir),
}

func TestGen(t *testing.T)    { pbt.RunAll(t, subs) }
func TestReplay(t *testing.T) { pbt.Replay(t, subs) }
