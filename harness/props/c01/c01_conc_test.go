package c01

// "An honest server and honest cache never cause a failure", for lookups that run at the same time.
// A client is used by many goroutines at once (that is what cmd/go does), and the record responses of
// lookups in flight together carry heads of different sizes, because the log grows (or a replica lags)
// between them. Nothing is corrupted here: one log, genuine responses, genuine tiles. The interleaving of
// the external operations and of the client's yield points is chosen by the harness-owned scheduler from
// generated decisions, so a failing schedule is part of the case and replays exactly.

import (
	"fmt"
	"strings"
	"sync"
	"sync/atomic"

	"golang.org/x/mod/sumdb"
	"pgregory.net/rapid"

	"verif/harness/internal/gen"
	"verif/harness/internal/pbt"
	"verif/harness/internal/sched"
	sw "verif/harness/internal/sumworld"
)

type concLookup struct {
	Size int64 // the record response carries the head of this size
	Mod  int64 // record looked up
}

type concCase struct {
	H, Seed int
	N       int64
	Stored  int64            // 0 = empty configuration
	Work    [][][]concLookup // client -> goroutine -> lookups (clients share configuration and cache)
	Choices []int
	History []string
}

func genConc(t *rapid.T) *concCase {
	c := &concCase{H: []int{1, 2, 2, 3}[gen.Uniform(t, 4, "h")], Seed: rapid.IntRange(0, 1).Draw(t, "seed")}
	c.N = rapid.Int64Range(2, 30).Draw(t, "n")
	if gen.Chance(t, 70, "stored") {
		c.Stored = rapid.Int64Range(1, c.N).Draw(t, "storedsize")
	}
	nc := []int{1, 1, 1, 2}[gen.Uniform(t, 4, "nclients")]
	for ci := 0; ci < nc; ci++ {
		ng := rapid.IntRange(2, 3).Draw(t, "ngor")
		var gs [][]concLookup
		for g := 0; g < ng; g++ {
			nl := []int{1, 1, 2}[gen.Uniform(t, 3, "nlookups")]
			var ls []concLookup
			for i := 0; i < nl; i++ {
				min := int64(1)
				if c.Stored > 0 && c.Stored < c.N && gen.Chance(t, 80, "beyondstored") {
					min = c.Stored + 1
				}
				l := concLookup{Size: rapid.Int64Range(min, c.N).Draw(t, "size")}
				l.Mod = rapid.Int64Range(0, l.Size-1).Draw(t, "mod")
				if gen.Chance(t, 40, "lastrecord") {
					l.Mod = l.Size - 1 // the newest record of its head: in no smaller tree
				}
				ls = append(ls, l)
			}
			gs = append(gs, ls)
		}
		c.Work = append(c.Work, gs)
	}
	c.Choices = gen.Schedule(t, 200, "sched")
	return c
}

func okConc(c *concCase) bool {
	if c == nil || c.H < 1 || c.H > 8 || c.N < 1 || c.N > 400 || c.Stored < 0 || c.Stored > c.N || len(c.Work) == 0 || len(c.Work) > 3 || len(c.Choices) > 3000 || len(c.History) > 8000 {
		return false
	}
	for _, gs := range c.Work {
		if len(gs) == 0 || len(gs) > 6 {
			return false
		}
		for _, ls := range gs {
			if len(ls) == 0 || len(ls) > 4 {
				return false
			}
			for _, l := range ls {
				if l.Size < 1 || l.Size > c.N || l.Mod < 0 || l.Mod >= l.Size {
					return false
				}
			}
		}
	}
	return true
}

type concOps struct {
	ops    *sw.Ops
	sch    *sched.Sched
	idx    int
	assign map[string]int64 // lookup path -> size of the head its response carries
	n      int64
}

func (c *concOps) do(kind, arg string, op func()) {
	c.sch.Do(fmt.Sprintf("c%d %s %s", c.idx, kind, arg), op)
}

func (c *concOps) ReadRemote(path string) (data []byte, err error) {
	c.do("ReadRemote", path, func() {
		c.ops.Srv = sw.Server{Log: c.ops.W.A, Size: c.n}
		if s, ok := c.assign[path]; ok && strings.HasPrefix(path, "/lookup/") {
			c.ops.Srv.Size = s
		}
		data, err = c.ops.ReadRemote(path)
	})
	return
}
func (c *concOps) ReadConfig(file string) (data []byte, err error) {
	c.do("ReadConfig", file, func() { data, err = c.ops.ReadConfig(file) })
	return
}
func (c *concOps) WriteConfig(file string, old, new []byte) (err error) {
	c.do("WriteConfig", file, func() { err = c.ops.WriteConfig(file, old, new) })
	return
}
func (c *concOps) ReadCache(file string) (data []byte, err error) {
	c.do("ReadCache", file, func() { data, err = c.ops.ReadCache(file) })
	return
}
func (c *concOps) WriteCache(file string, data []byte) {
	c.do("WriteCache", file, func() { c.ops.WriteCache(file, data) })
}
func (c *concOps) Log(msg string)           {}
func (c *concOps) SecurityError(msg string) { c.ops.SecurityError(msg) }
func (c *concOps) VerifYield(point string)  { c.do("yield", point, func() {}) }

type concOutcome struct {
	client int
	l      concLookup
	mv     sw.ModVer
	lines  []string
	err    error
}

func checkConc(c *concCase) pbt.Result {
	r := pbt.Result{}
	if !okConc(c) {
		r.Skip = true
		return r
	}
	w := sw.New(sw.Config{H: c.H, NA: c.N, Fork: -1, Seed: int64(c.Seed)})
	// one answer per module@version: the first lookup that names it decides
	assign := map[string]int64{}
	for _, gs := range c.Work {
		for _, ls := range gs {
			for _, l := range ls {
				if p := sw.LookupPath(w.A.Mods[l.Mod]); assign[p] == 0 {
					assign[p] = l.Size
				}
			}
		}
	}
	ops := sw.NewOps(w, sw.Server{Log: w.A, Size: c.N})
	if c.Stored > 0 {
		ops.Config[w.Name+"/latest"] = w.Head(w.A, c.Stored)
	}
	var sch *sched.Sched
	if len(c.History) > 0 {
		sch = sched.NewReplay(c.History)
	} else {
		sch = sched.New(c.Choices)
	}
	var wg sync.WaitGroup
	var mu sync.Mutex
	var outs []concOutcome
	var done atomic.Int32
	total := 0
	sizes := map[int64]bool{}
	for ci, gs := range c.Work {
		co := &concOps{ops: ops, sch: sch, idx: ci, assign: assign, n: c.N}
		cl := sumdb.NewClient(co)
		cl.SetTileHeight(c.H)
		for _, ls := range gs {
			total++
			wg.Add(1)
			go func(ci int, ls []concLookup) {
				defer wg.Done()
				defer done.Add(1)
				for _, l := range ls {
					mv := w.A.Mods[l.Mod]
					lines, err := cl.Lookup(mv.Path, mv.Version)
					mu.Lock()
					outs = append(outs, concOutcome{ci, l, mv, lines, err})
					mu.Unlock()
				}
			}(ci, ls)
			for _, l := range ls {
				sizes[assign[sw.LookupPath(w.A.Mods[l.Mod])]] = true
			}
		}
	}
	sch.Workers = "golang.org/x/mod/sumdb."
	sch.Run(func() bool { return int(done.Load()) == total })
	if sch.Deadlock {
		r.NonTrivial = true
		r.Fail = pbt.Failf("honest-concurrent-deadlocked", "one log, genuine responses: the lookups never return: %v\nschedule (%d decisions): %v", sch.Err, len(sch.History), sch.History)
		if len(c.History) == 0 {
			c.History = append([]string(nil), sch.History...)
			c.Choices = nil
		}
		return r
	}
	wg.Wait()
	if sch.Err != nil {
		r.Skip = true
		r.Classes = []string{"inconclusive: " + strings.SplitN(sch.Err.Error(), ":", 2)[0]}
		fmt.Printf("INCONCLUSIVE C01 honest-concurrent: %v\n", sch.Err)
		return r
	}
	r.Key = strings.Join(sch.History, "|")
	r.NonTrivial = len(sizes) >= 2
	r.Classes = []string{fmt.Sprintf("distinct head sizes in flight=%d", len(sizes)), fmt.Sprintf("clients=%d", len(c.Work))}
	fail := func(f *pbt.Failure) pbt.Result {
		f.Msg += fmt.Sprintf("\nschedule (%d decisions): %v", len(sch.History), sch.History)
		if len(c.History) == 0 {
			c.History = append([]string(nil), sch.History...)
			c.Choices = nil
		}
		r.Fail = f
		return r
	}
	if f := sw.AuditWrites(w, ops.Snapshot()); f != nil {
		return fail(f)
	}
	for _, o := range outs {
		if o.err != nil {
			return fail(pbt.Failf("honest-concurrent-failed", "one log of %d records, genuine responses, tiles, cache and configuration (stored head of size %d): client %d's lookup of %s@%s (record %d, answered with the head of size %d) failed: %v", c.N, c.Stored, o.client, o.mv.Path, o.mv.Version, o.l.Mod, assign[sw.LookupPath(o.mv)], o.err))
		}
		if want := w.A.Lines(o.l.Mod, o.mv.Path, o.mv.Version); fmt.Sprint(want) != fmt.Sprint(o.lines) {
			return fail(pbt.Failf("honest-concurrent-lines", "client %d's lookup of %s@%s returned %q, the record says %q", o.client, o.mv.Path, o.mv.Version, o.lines, want))
		}
	}
	return r
}
