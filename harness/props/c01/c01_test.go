// Package c01: the checksum-database client never returns or caches unauthenticated data.
package c01

import (
	"bytes"
	"fmt"
	"strings"
	"testing"

	"golang.org/x/mod/sumdb"
	"pgregory.net/rapid"

	"verif/harness/internal/gen"
	"verif/harness/internal/pbt"
	sw "verif/harness/internal/sumworld"
)

func init() {
	sw.SetWriteConflict(sumdb.ErrWriteConflict)
	pbt.Describe("world = tile height H in {1,2,3,4,8}, a log of N records (go.sum line groups for generated module@version incl. upper-case paths, /go.mod lines and the pair go.sum@database whose prefix matches a line of the tree note), a real Ed25519 server key held only by the harness, the server's head at size S<=N, the client's stored head in {empty, signed head of size s0<=S}, cache prefill in {empty, authentic half, everything}. history = 1-5 lookups (existing, missing, repeated, with and without /go.mod) with optional client restarts sharing config and cache. fault plan = 0-3 faults, each bound to a resource the fault-free run requested (lookup response, tile, cached lookup file, cached tile, stored head) and its n-th occurrence: bit flip, truncation, extension, empty, garbage, I/O error, swap with another authentic resource of the same kind (other record, neighbouring/parent/child tile, same tile other width), stale replay (older genuine head with the record, or a genuine head that does not contain it), dropped signature, duplicated line, forged record with its leaf hash placed in an otherwise genuine level-0 tile, forged chain of recomputed parent tiles up to a generated level. Oracle (ground truth, not the code): a successful lookup returns only lines of the genuine record for that module@version, and exactly those lines when every byte delivered for it was authentic; every lookup file written to the cache carries the genuine record text of its id and a head that opens under the key to a genuine (size, hash); every tile file written is byte-identical to the reference tile of its coordinates; every stored head is validly signed, genuine and not smaller than the one it replaces; no security error is raised in a world with a single log; the fault-free run succeeds everywhere. enum = bounded exhaustive single-fault enumeration over every record x every response of the fault-free run x a fixed fault menu. Non-trivial: a fault was delivered and the delivered bytes differ from the authentic ones; or (fault-free) a history that needed >=3 tiles. Distinct by JSON rendering. honest-concurrent: one log, nothing corrupted; 1-2 clients sharing configuration and cache, 2-3 goroutines each; the record responses of the lookups in flight carry heads of different sizes; every external operation and yield point released by the harness-owned scheduler from generated decisions (the schedule is stored in the case); every lookup must succeed with exactly the record's lines and the write audit must hold. Non-trivial: >=2 distinct head sizes in flight. 40% of the worlds hold twin records (the module proxy.example/<path> at the same version as <path>, so that one record's text contains the other's 'path version ' prefix inside a line); fault kind swap-related answers a lookup, from the network or the cache, with the genuine response of its twin.",
		"Ed25519 and SHA-256 are sound; the adversary never has the key (forged heads are not generated)", "faults are bound to resources by name and occurrence so that plans do not depend on goroutine scheduling",
		"a lookup that succeeds with no lines (the server answered with another genuine record) returns nothing unauthenticated and is accepted")
}

func TestMain(m *testing.M) { pbt.Main(m) }

type step struct {
	Mod     int64 // record index in log A; -1 = a module the log does not contain
	GoMod   bool
	Restart bool // start a new client (same config and cache) before this lookup
}

type c01Case struct {
	Twins     bool `json:",omitempty"` // the log holds pairs of records for module paths one of which ends in the other, at the same version
	H, Seed   int
	N         int64
	Serve     int64 // server's tree size (<= N)
	Stored    int64 // size of the head stored in the client's configuration (0 = empty)
	Prefill   int
	PrefillTo int64
	Steps     []step
	Faults    []sw.Fault
	Extra     int `json:",omitempty"` // index into sw.ExtraLines: further lines in every tree head
}

func genN(t *rapid.T, max int64) int64 {
	switch rapid.IntRange(0, 9).Draw(t, "nk") {
	case 0, 1, 2:
		return rapid.Int64Range(1, 20).Draw(t, "nsmall")
	case 3, 4:
		k := rapid.IntRange(1, 8).Draw(t, "pow")
		v := int64(1)<<uint(k) + int64(rapid.IntRange(-1, 1).Draw(t, "d"))
		if v > max {
			v = max
		}
		if v < 1 {
			v = 1
		}
		return v
	case 5, 6:
		k := rapid.IntRange(2, 8).Draw(t, "ones")
		v := int64(1)<<uint(k) - 1
		if rapid.Bool().Draw(t, "hi") {
			v += int64(1) << uint(k+rapid.IntRange(1, 2).Draw(t, "gap"))
		}
		if v > max {
			v = max
		}
		return v
	}
	return rapid.Int64Range(1, max).Draw(t, "n")
}

var classes = [][2]string{{"remote", "lookup"}, {"remote", "lookup"}, {"remote", "tile"}, {"remote", "tile"}, {"remote", "tile"}, {"cache", "lookup"}, {"cache", "tile"}, {"cache", "tile"}, {"config", "latest"}}

func genFault(t *rapid.T) sw.Fault {
	c := classes[gen.Uniform(t, len(classes), "class")]
	return sw.Fault{Op: c[0], Class: c[1], Ord: rapid.IntRange(0, 30).Draw(t, "ord"), Occ: []int{0, 0, 0, 1}[rapid.IntRange(0, 3).Draw(t, "occ")],
		Kind: sw.FaultKinds[gen.Uniform(t, len(sw.FaultKinds), "kind")], I: rapid.IntRange(0, 500).Draw(t, "i"), J: rapid.IntRange(0, 7).Draw(t, "j"),
		Ord2: rapid.IntRange(0, 30).Draw(t, "ord2"), Size: rapid.Int64Range(0, 300).Draw(t, "size"), Level: rapid.IntRange(0, 3).Draw(t, "level")}
}

func genCase(t *rapid.T) c01Case {
	max := int64(120)
	if pbt.Thorough() {
		max = 1500
	}
	c := c01Case{H: []int{1, 2, 2, 3, 3, 4, 8}[gen.Uniform(t, 7, "h")], Seed: rapid.IntRange(0, 1).Draw(t, "seed")}
	c.N = genN(t, max)
	c.Serve = c.N
	if rapid.IntRange(0, 3).Draw(t, "serveless") == 0 {
		c.Serve = rapid.Int64Range(1, c.N).Draw(t, "serve")
	}
	if rapid.Bool().Draw(t, "hasstored") {
		c.Stored = rapid.Int64Range(1, c.Serve).Draw(t, "stored")
	}
	c.Prefill = rapid.IntRange(0, 2).Draw(t, "prefill")
	if rapid.Bool().Draw(t, "noprefill") {
		c.Prefill = 0
	}
	c.PrefillTo = rapid.Int64Range(1, c.Serve).Draw(t, "prefillto")
	ns := rapid.IntRange(1, 5).Draw(t, "nsteps")
	for i := 0; i < ns; i++ {
		s := step{Mod: rapid.Int64Range(0, c.Serve-1).Draw(t, "mod"), GoMod: rapid.IntRange(0, 3).Draw(t, "gomod") == 0}
		switch rapid.IntRange(0, 9).Draw(t, "sk") {
		case 0:
			s.Mod = -1
		case 1:
			if c.N > c.Serve {
				s.Mod = rapid.Int64Range(c.Serve, c.N-1).Draw(t, "beyond") // in the full log, not yet on the server
			}
		case 2:
			if len(c.Steps) > 0 {
				s.Mod = c.Steps[0].Mod
			}
		case 3:
			if c.Serve > 4 {
				s.Mod = 4 // go.sum@database
			}
		}
		s.Restart = i > 0 && rapid.IntRange(0, 3).Draw(t, "restart") == 0
		c.Steps = append(c.Steps, s)
	}
	nf := []int{0, 1, 1, 1, 1, 2, 3}[rapid.IntRange(0, 6).Draw(t, "nfaults")]
	for i := 0; i < nf; i++ {
		c.Faults = append(c.Faults, genFault(t))
	}
	c.Twins = gen.Chance(t, 40, "twins")
	if gen.Chance(t, 20, "extralines") {
		c.Extra = 1 + gen.Uniform(t, len(sw.ExtraLines)-1, "extra")
	}
	if gen.Chance(t, 4, "twinswap") {
		// A lookup is answered, from the network or from the cache, with the genuine response for another module
		// whose path ends in the requested path, at the same version: the requested "path version " prefix occurs
		// inside that record's lines, not at their start.
		c.Twins = true
		k := rapid.Int64Range(0, 3).Draw(t, "twink")
		if c.N < 7*k+7 {
			c.N = 7*k + 7 + rapid.Int64Range(0, 20).Draw(t, "twinextra")
		}
		c.Serve, c.Stored = c.N, 0
		mod := 7*k + 3
		if rapid.Bool().Draw(t, "twinlong") {
			mod = 7*k + 6 // the longer path is asked for, the shorter one's record is served
		}
		c.Steps = []step{{Mod: mod, GoMod: rapid.Bool().Draw(t, "twingomod")}}
		if rapid.Bool().Draw(t, "twinfromcache") {
			c.Prefill, c.PrefillTo = 2, c.N
			c.Faults = []sw.Fault{{Op: "cache", Class: "lookup", Ord: 0, Occ: 0, Kind: "swap-related"}}
		} else {
			c.Faults = []sw.Fault{{Op: "remote", Class: "lookup", Ord: 0, Occ: 0, Kind: "swap-related"}}
		}
	}
	if gen.Chance(t, 5, "cachedforgery") {
		// A forged complete leaf tile sits in the cache. The client first looks up another record of that tile
		// (which must fail: the tile does not authenticate) and then the record the forgery is about, which the
		// coherent adversary answers with the forged text. Whatever the first lookup left behind in the client
		// must not vouch for the second.
		c.H = []int{1, 2, 2, 3}[gen.Uniform(t, 4, "fh")]
		w := int64(1) << uint(c.H)
		c.N = 2*w + 1 + rapid.Int64Range(0, 30).Draw(t, "fextra")
		c.Serve, c.Stored = c.N, 0
		c.Prefill, c.PrefillTo = 1, c.N // even record ids and even tiles are cached, odd ones are not
		id := int64(1)
		if w > 2 && rapid.Bool().Draw(t, "fid3") {
			id = 3
		}
		other := int64(0)
		if w > 2 && rapid.Bool().Draw(t, "fother2") {
			other = 2
		}
		c.Steps = []step{{Mod: other}, {Mod: id, GoMod: rapid.Bool().Draw(t, "fgomod")}}
		if rapid.Bool().Draw(t, "fthird") {
			c.Steps = append(c.Steps, step{Mod: id})
		}
		c.Faults = []sw.Fault{{Op: "cache", Class: "tile", Ord: 0, Occ: 0, Kind: "forged-record"}}
	}
	return c
}

// genLarge: logs large enough that tile numbers reach four digits (the tile path then gains an
// "x001" element) with lookups of the records around those tiles; mostly fault-free.
func genLarge(t *rapid.T) c01Case {
	type shape struct {
		h int
		n int64
	}
	sh := []shape{{1, 2001}, {1, 2003}, {1, 4002}, {1, 4004}, {1, 4100}, {1, 4500}, {2, 4001}, {2, 4003}, {2, 4100}, {2, 4500}, {3, 8001}, {3, 8009}, {1, 8010}}[gen.Uniform(t, 13, "shape")]
	c := c01Case{H: sh.h, N: sh.n, Serve: sh.n}
	if gen.Chance(t, 30, "hasstored") {
		c.Stored = rapid.Int64Range(1, c.Serve).Draw(t, "stored")
	}
	c.Prefill = []int{0, 0, 1, 2}[gen.Uniform(t, 4, "prefill")]
	c.PrefillTo = rapid.Int64Range(1, c.Serve).Draw(t, "prefillto")
	ns := rapid.IntRange(1, 4).Draw(t, "nsteps")
	for i := 0; i < ns; i++ {
		var mod int64
		switch rapid.IntRange(0, 3).Draw(t, "where") {
		case 0:
			mod = rapid.Int64Range(0, c.Serve-1).Draw(t, "mod")
		case 1:
			mod = c.Serve - 1 - int64(rapid.IntRange(0, 3).Draw(t, "fromend"))
		default:
			// around record 1000 * 2^(H*(L+1)) for L = 0, 1, 2
			b := int64(1000) << uint(c.H*(1+rapid.IntRange(0, 2).Draw(t, "l")))
			mod = b + int64(rapid.IntRange(-2, 9).Draw(t, "d"))
		}
		if mod < 0 || mod >= c.Serve {
			mod = c.Serve - 1
		}
		c.Steps = append(c.Steps, step{Mod: mod, GoMod: gen.Chance(t, 20, "gomod"), Restart: i > 0 && gen.Chance(t, 25, "restart")})
	}
	if gen.Chance(t, 30, "fault") {
		c.Faults = append(c.Faults, genFault(t))
	}
	return c
}

func okCase(c c01Case) bool {
	if c.H < 1 || c.H > 10 || c.N < 1 || c.N > 9000 || c.Serve < 1 || c.Serve > c.N || c.Stored < 0 || c.Stored > c.Serve || c.PrefillTo < 1 || c.PrefillTo > c.Serve || c.Prefill < 0 || c.Prefill > 2 || len(c.Steps) == 0 || len(c.Steps) > 12 || len(c.Faults) > 8 {
		return false
	}
	for _, s := range c.Steps {
		if s.Mod < -1 || s.Mod >= c.N {
			return false
		}
	}
	for _, f := range c.Faults {
		if f.Ord < 0 || f.Occ < 0 || f.I < 0 || f.J < 0 || f.Ord2 < 0 || f.Size < 0 || f.Level < 0 || f.Level > 8 {
			return false
		}
	}
	return true
}

type result struct {
	path, vers string
	lines      []string
	err        error
}

// run executes the history against a fresh set of operations.
func run(c c01Case, w *sw.World, faults []sw.Fault, honestRequests map[string][]string) (*sw.Ops, []result) {
	ops := sw.NewOps(w, sw.Server{Log: w.A, Size: c.Serve})
	if c.Stored > 0 {
		ops.Config[w.Name+"/latest"] = w.Head(w.A, c.Stored)
	}
	ops.PrefillCache(w.A, c.PrefillTo, c.Prefill)
	if faults != nil {
		ops.Resolve(faults, honestRequests)
	}
	newClient := func() *sumdb.Client {
		cl := sumdb.NewClient(ops)
		cl.SetTileHeight(c.H)
		return cl
	}
	cl := newClient()
	var out []result
	for _, s := range c.Steps {
		if s.Restart {
			cl = newClient()
		}
		mv := sw.ModVer{Path: "missing.example.com/nothing", Version: "v1.0.0"}
		if s.Mod >= 0 {
			mv = w.A.Mods[s.Mod]
		}
		vers := mv.Version
		if s.GoMod {
			vers += "/go.mod"
		}
		lines, err := cl.Lookup(mv.Path, vers)
		out = append(out, result{mv.Path, vers, lines, err})
	}
	return ops, out
}

func sameLines(a, b []string) bool {
	if len(a) != len(b) {
		return false
	}
	for i := range a {
		if a[i] != b[i] {
			return false
		}
	}
	return true
}

func check(c c01Case) pbt.Result {
	r := pbt.Result{}
	if !okCase(c) {
		r.Skip = true
		return r
	}
	w := sw.New(sw.Config{H: c.H, NA: c.N, Fork: -1, Seed: int64(c.Seed), Twins: c.Twins, Extra: c.Extra})
	// 1. fault-free run: must succeed everywhere (clause d) and defines the resources faults bind to
	ops0, res0 := run(c, w, nil, nil)
	for i, x := range res0 {
		s := c.Steps[i]
		exists := s.Mod >= 0 && s.Mod < c.Serve
		if exists {
			want := w.A.Lines(s.Mod, x.path, x.vers)
			if x.err != nil || !sameLines(x.lines, want) {
				r.Fail = pbt.Failf("honest-lookup", "honest server and cache, lookup %d of %s@%s: got %q, %v; genuine lines %q", i, x.path, x.vers, x.lines, x.err, want)
				return r
			}
		} else if x.err == nil {
			r.Fail = pbt.Failf("honest-missing", "lookup %d of %s@%s, which the server does not have, succeeded with %q", i, x.path, x.vers, x.lines)
			return r
		}
	}
	if f := sw.AuditWrites(w, ops0.Snapshot()); f != nil {
		f.Msg = "fault-free run: " + f.Msg
		r.Fail = f
		return r
	}
	req := ops0.Requests()
	tiles := len(req["remote tile"]) + len(req["cache tile"])
	if len(c.Faults) == 0 {
		r.NonTrivial = tiles >= 3
		r.Classes = []string{"fault-free"}
		return r
	}
	// 2. the same history with faults
	ops1, res1 := run(c, w, c.Faults, req)
	events := ops1.Snapshot()
	delivered := false
	// which lookup files saw a non-authentic delivery
	tainted := map[string]bool{}
	anyTaint := false
	for _, e := range events {
		if e.Faulted == "" {
			continue
		}
		if !bytes.Equal(e.Delivered, e.Honest) || e.Err != e.HonestErr {
			delivered = true
			anyTaint = true
			r.Classes = append(r.Classes, fmt.Sprintf("%s %s %s", e.Op, classOf(e.Name), strings.Fields(e.Faulted)[0]))
			if strings.Contains(e.Name, "/lookup/") {
				tainted[e.Name[strings.Index(e.Name, "/lookup/"):]] = true
			}
		}
	}
	r.NonTrivial = delivered
	for i, x := range res1 {
		s := c.Steps[i]
		if x.err != nil {
			continue
		}
		var genuine []string
		if s.Mod >= 0 {
			genuine = w.A.Lines(s.Mod, x.path, x.vers)
		}
		for _, line := range x.lines {
			found := false
			for _, g := range genuine {
				if g == line {
					found = true
				}
			}
			if !found {
				r.Fail = pbt.Failf("unauthenticated-line-returned", "lookup %d of %s@%s returned %q, which is not a line of the genuine record (genuine: %q); faults %+v", i, x.path, x.vers, line, genuine, c.Faults)
				return r
			}
		}
		if !anyTaint && !sameLines(x.lines, genuine) && s.Mod >= 0 && s.Mod < c.Serve {
			r.Fail = pbt.Failf("lines-incomplete", "lookup %d of %s@%s returned %q, genuine lines are %q although nothing non-authentic was delivered", i, x.path, x.vers, x.lines, genuine)
			return r
		}
	}
	if f := sw.AuditWrites(w, events); f != nil {
		f.Msg += fmt.Sprintf("\nfaults: %+v", c.Faults)
		r.Fail = f
		return r
	}
	_ = tainted
	return r
}

func classOf(name string) string {
	switch {
	case strings.Contains(name, "/lookup/"):
		return "lookup"
	case strings.Contains(name, "tile/"):
		return "tile"
	}
	return "latest"
}

var subs = []pbt.Sub{
	pbt.New("faults", 3000, 8000, genCase, check),
	pbt.New("large", 150, 1500, genLarge, check),
	pbt.New("honest-concurrent", 250, 2500, genConc, checkConc),
}

func TestGen(t *testing.T)    { pbt.RunAll(t, subs) }
func TestReplay(t *testing.T) { pbt.Replay(t, subs) }

// TestEnum: bounded exhaustive single-fault enumeration: every N up to a bound, H in {1,2,3},
// every record, every response of the fault-free run (by class and ordinal), every fault of a fixed menu.
func TestEnum(t *testing.T) {
	maxN := int64(9)
	if pbt.Thorough() {
		maxN = 40
	}
	shard, nshards := pbt.Shard()
	menu := []sw.Fault{{Kind: "bitflip", I: 5, J: 0}, {Kind: "bitflip", I: 40, J: 3}, {Kind: "bitflip", I: 70, J: 7}, {Kind: "truncate", I: 31}, {Kind: "extend"}, {Kind: "empty"}, {Kind: "swap", Ord2: 0}, {Kind: "swap", Ord2: 1}, {Kind: "swap", Ord2: 2}, {Kind: "swap", Ord2: 5},
		{Kind: "forged-record"}, {Kind: "forged-chain", Level: 1}, {Kind: "forged-chain", Level: 2}, {Kind: "old-record-head", Size: 0}, {Kind: "stale-head", Size: 0}, {Kind: "dup-line"}, {Kind: "drop-sig"}}
	for n := int64(1); n <= maxN; n++ {
		if int(n)%nshards != shard {
			continue
		}
		for _, h := range []int{1, 2, 3} {
			for id := int64(0); id < n; id++ {
				base := c01Case{H: h, N: n, Serve: n, PrefillTo: 1, Steps: []step{{Mod: id}}}
				w := sw.New(sw.Config{H: h, NA: n, Fork: -1})
				ops0, _ := run(base, w, nil, nil)
				req := ops0.Requests()
				for _, cl := range [][2]string{{"remote", "lookup"}, {"remote", "tile"}} {
					for ord := range req[cl[0]+" "+cl[1]] {
						for _, f := range menu {
							f.Op, f.Class, f.Ord = cl[0], cl[1], ord
							cc := base
							cc.Faults = []sw.Fault{f}
							res := check(cc)
							pbt.Count("enum-single-fault", cc, res)
							if res.Fail != nil {
								pbt.ReportEnum(t, "faults", cc, res.Fail)
								return
							}
						}
					}
				}
			}
		}
	}
	pbt.MarkExhaustive("enum-single-fault")
}
