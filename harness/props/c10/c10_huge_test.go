package c10

// Reads through tiles in very large trees. A log of identical records has subtree hashes that
// depend only on the subtree size, so true tiles, true stored hashes and the tree hash of logs of
// up to 2^60 records are available from merkleref.Uniform without storing anything. This reaches
// tile chains of every depth (up to 60 levels at tile height 1) and tile numbers of every magnitude.

import (
	"fmt"
	"sync"

	"golang.org/x/mod/sumdb/tlog"
	"pgregory.net/rapid"

	"verif/harness/internal/gen"
	"verif/harness/internal/pbt"
	"verif/harness/internal/ref/merkleref"
)

type hugeCase struct {
	H     int
	Size  int64
	Want  []coord // complete subtrees whose stored hashes are requested
	Fault int     // >= 0: flip a bit in the Fault'th tile served (modulo the number served)
	Bit   int
}

func genHugeSize(t *rapid.T) int64 {
	k := rapid.IntRange(1, 60).Draw(t, "log2")
	switch rapid.IntRange(0, 3).Draw(t, "shape") {
	case 0:
		return int64(1) << uint(k)
	case 1:
		v := int64(1)<<uint(k) + int64(rapid.IntRange(-3, 3).Draw(t, "d"))
		if v < 1 {
			v = 1
		}
		return v
	case 2: // a few one bits
		v := int64(1) << uint(k)
		for i := rapid.IntRange(1, 4).Draw(t, "ones"); i > 0; i-- {
			v |= int64(1) << uint(rapid.IntRange(0, k).Draw(t, "bit"))
		}
		return v
	}
	return rapid.Int64Range(1, int64(1)<<uint(k)).Draw(t, "size")
}

func genHuge(t *rapid.T) hugeCase {
	c := hugeCase{H: []int{1, 1, 2, 3, 4, 8, 10}[gen.Uniform(t, 7, "h")], Size: genHugeSize(t), Fault: -1}
	nw := rapid.IntRange(1, 3).Draw(t, "nwant")
	for i := 0; i < nw; i++ {
		maxLevel := 0
		for int64(1)<<uint(maxLevel+1) <= c.Size {
			maxLevel++
		}
		level := 0
		if gen.Chance(t, 40, "upper") {
			level = rapid.IntRange(0, maxLevel).Draw(t, "level")
		}
		cnt := c.Size >> uint(level) // complete subtrees at that level
		var off int64
		switch rapid.IntRange(0, 4).Draw(t, "where") {
		case 0:
			off = 0
		case 1:
			off = cnt - 1
		case 2:
			off = cnt / 3
		default:
			off = rapid.Int64Range(0, cnt-1).Draw(t, "off")
		}
		c.Want = append(c.Want, coord{Level: level, Offset: off})
	}
	if gen.Chance(t, 40, "fault") {
		c.Fault = rapid.IntRange(0, 200).Draw(t, "fault")
		c.Bit = rapid.IntRange(0, 1<<20).Draw(t, "bit")
	}
	return c
}

type uniformReader struct {
	h      int
	size   int64
	u      *merkleref.Uniform
	mu     sync.Mutex
	served int
	fault  int
	bit    int
	hit    bool
	saved  string // first complaint about SaveTiles
}

func (r *uniformReader) Height() int { return r.h }

func (r *uniformReader) truth(t tlog.Tile) ([]byte, bool) {
	if t.H != r.h || t.L < 0 || t.H*t.L > 62 || t.W < 1 || t.W > 1<<uint(t.H) || t.N < 0 {
		return nil, false
	}
	if (t.N<<uint(t.H)+int64(t.W)) > r.size>>uint(t.H*t.L) {
		return nil, false
	}
	x := r.u.MTHSize(int64(1) << uint(t.H*t.L))
	out := make([]byte, 0, t.W*32)
	for i := 0; i < t.W; i++ {
		out = append(out, x[:]...)
	}
	return out, true
}

func (r *uniformReader) ReadTiles(tiles []tlog.Tile) ([][]byte, error) {
	r.mu.Lock()
	defer r.mu.Unlock()
	out := make([][]byte, len(tiles))
	for i, t := range tiles {
		d, ok := r.truth(t)
		if !ok {
			return nil, fmt.Errorf("tile %v does not exist in a tree of %d records", t, r.size)
		}
		if r.fault >= 0 && r.served == r.fault {
			d[(r.bit/8)%len(d)] ^= 1 << uint(r.bit%8)
			r.hit = true
		}
		r.served++
		out[i] = d
	}
	return out, nil
}

func (r *uniformReader) SaveTiles(tiles []tlog.Tile, data [][]byte) {
	r.mu.Lock()
	defer r.mu.Unlock()
	for i, t := range tiles {
		d, ok := r.truth(t)
		if (!ok || string(d) != string(data[i])) && r.saved == "" {
			r.saved = fmt.Sprintf("%v", t)
		}
	}
}

func checkHuge(c hugeCase) pbt.Result {
	r := pbt.Result{}
	if c.H < 1 || c.H > 12 || c.Size < 1 || c.Size > 1<<60 || len(c.Want) == 0 || len(c.Want) > 8 || c.Bit < 0 {
		r.Skip = true
		return r
	}
	var idx []int64
	for _, w := range c.Want {
		if w.Level < 0 || w.Level > 60 || w.Offset < 0 || w.Offset >= c.Size>>uint(w.Level) {
			r.Skip = true
			return r
		}
		idx = append(idx, tlog.StoredHashIndex(w.Level, w.Offset))
	}
	u := merkleref.NewUniform([]byte("the same record everywhere\n"))
	tree := tlog.Tree{N: c.Size, Hash: tlog.Hash(u.MTHSize(c.Size))}
	// the honest run also tells how many tiles are served, so that the fault lands on one of them
	honest := &uniformReader{h: c.H, size: c.Size, u: u, fault: -1}
	got, err := tlog.TileHashReader(tree, honest).ReadHashes(idx)
	depth := 0
	for depth*c.H < 62 && int64(1)<<uint(depth*c.H) <= c.Size {
		depth++
	}
	r.NonTrivial = depth > 4
	r.Classes = []string{fmt.Sprintf("tile levels=%d..%d", depth/10*10, depth/10*10+9)}
	if err != nil {
		r.Fail = pbt.Failf("honest-read-failed-huge", "tree of %d records, tile height %d, tiles served honestly: ReadHashes(%v) failed: %v", c.Size, c.H, c.Want, err)
		return r
	}
	for i, w := range c.Want {
		if want := u.MTHSize(int64(1) << uint(w.Level)); i >= len(got) || merkleref.Hash(got[i]) != want {
			r.Fail = pbt.Failf("wrong-hash-huge", "tree of %d records, tile height %d: ReadHashes returned a wrong hash for level %d offset %d", c.Size, c.H, w.Level, w.Offset)
			return r
		}
	}
	if honest.saved != "" {
		r.Fail = pbt.Failf("saved-unauthenticated-tile", "honest run: SaveTiles received tile %s with content that is not the true tile", honest.saved)
		return r
	}
	if c.Fault < 0 || honest.served == 0 {
		return r
	}
	faulty := &uniformReader{h: c.H, size: c.Size, u: u, fault: c.Fault % honest.served, bit: c.Bit}
	got, err = tlog.TileHashReader(tree, faulty).ReadHashes(idx)
	if faulty.hit {
		r.Classes = append(r.Classes, "corrupted tile served")
	}
	if faulty.saved != "" {
		r.Fail = pbt.Failf("saved-unauthenticated-tile", "tree of %d records, tile height %d, one bit of the %d'th served tile flipped: SaveTiles received tile %s with content that is not the true tile", c.Size, c.H, faulty.fault, faulty.saved)
		return r
	}
	if err == nil {
		for i, w := range c.Want {
			if want := u.MTHSize(int64(1) << uint(w.Level)); i >= len(got) || merkleref.Hash(got[i]) != want {
				r.Fail = pbt.Failf("unauthenticated-hash-huge", "tree of %d records, tile height %d, one bit of the %d'th served tile flipped: ReadHashes succeeded and returned a hash that is not in the tree (level %d offset %d)", c.Size, c.H, faulty.fault, w.Level, w.Offset)
				return r
			}
		}
	}
	return r
}

// ---- publisher sufficiency at the top of the range

// When a log grows from 2^k-1 to 2^k records every level of the tree changes, so the tiles a publisher is told
// to publish for that one step are, on their own, sufficient to read the new last record and the new root
// subtree (everything else the reader needs lies on the right edge, which is entirely new).
type hugePubCase struct {
	H, K int
}

func genHugePub(t *rapid.T) hugePubCase {
	return hugePubCase{H: rapid.IntRange(1, 12).Draw(t, "h"), K: rapid.IntRange(1, 61).Draw(t, "k")} // (a tile of height 12 is 128 KiB; taller tiles are a memory matter for the harness, not a different code path)
}

type publishedUniform struct {
	uniformReader
	pub map[tlog.Tile]bool
}

func (r *publishedUniform) ReadTiles(tiles []tlog.Tile) ([][]byte, error) {
	for _, t := range tiles {
		if !r.pub[t] {
			return nil, fmt.Errorf("tile %v was never published", t)
		}
	}
	return r.uniformReader.ReadTiles(tiles)
}

func checkHugePub(c hugePubCase) pbt.Result {
	r := pbt.Result{}
	if c.H < 1 || c.H > 12 || c.K < 1 || c.K > 61 {
		r.Skip = true
		return r
	}
	size := int64(1) << uint(c.K)
	u := merkleref.NewUniform([]byte("the same record everywhere\n"))
	pub := map[tlog.Tile]bool{}
	for _, t := range tlog.NewTiles(c.H, size-1, size) {
		pub[t] = true
	}
	r.NonTrivial = c.K >= 8
	r.Classes = []string{fmt.Sprintf("tile levels=%d", c.K/c.H+1)}
	rd := &publishedUniform{uniformReader: uniformReader{h: c.H, size: size, u: u, fault: -1}, pub: pub}
	tree := tlog.Tree{N: size, Hash: tlog.Hash(u.MTHSize(size))}
	idx := []int64{tlog.StoredHashIndex(0, size-1)}
	got, err := tlog.TileHashReader(tree, rd).ReadHashes(idx)
	if err != nil {
		r.Fail = pbt.Failf("publish-insufficient-huge", "log grown from 2^%d-1 to 2^%d records, tile height %d: reading the new last record through exactly the tiles NewTiles lists for that step fails: %v", c.K, c.K, c.H, err)
		return r
	}
	if len(got) != 1 || merkleref.Hash(got[0]) != u.MTHSize(1) {
		r.Fail = pbt.Failf("wrong-hash-huge", "log of 2^%d records, tile height %d: wrong hash for the last record", c.K, c.H)
	}
	return r
}
