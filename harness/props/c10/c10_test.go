// Package c10: hashes read through tiles are authenticated against the tree head.
package c10

import (
	"bytes"
	"crypto/sha256"
	"errors"
	"fmt"
	"math/bits"
	"sort"
	"strconv"
	"strings"
	"testing"

	"golang.org/x/mod/sumdb/tlog"
	"pgregory.net/rapid"

	"verif/harness/internal/gen"
	"verif/harness/internal/pbt"
	"verif/harness/internal/ref/merkleref"
	"verif/harness/internal/tlogutil"
)

func init() {
	pbt.Describe("read: (log seed, tree size N biased to 2^k+-1 and to sizes whose tree-hash tiles coincide, tile height H in {1,2,3,4,8,10}, a set of in-tree hash positions at any level, 0-3 faults on the tiles actually requested). Faults: any single bit, swap/duplicate hashes, another tile of the same tree, the same tile of a forked tree sharing a prefix, truncate/extend by a byte or a hash, empty, zeroed, fewer/more result slices, and a tile forged together with one to three ancestors forged to vouch for it (each ancestor's entry for its child replaced by the hash of the forged child, so that only the topmost forged tile disagrees with anything above it). The tile reader serves reference tiles computed from leaf data. Oracle: honest service => exactly the true stored hashes; otherwise an error, or still the true hashes; every (tile,data) handed to SaveTiles is byte-identical to the true tile. enum: every single position x every requested tile x a fixed fault menu for all N up to a bound and H in {1,2,3(,4)}. publish: growth schedules 0=n0<n1<...; a reader that serves only coordinates returned by NewTiles (or the published full tile for a partial request) must satisfy reads of every position of every tree n_i. tiledata/path: ReadTileData/HashFromTile/TileForIndex against the reference, and Tile<->path bijection against an independently written formatter. Non-trivial: read/enum = a delivered tile differs from the truth and is NOT one of the tree-hash tiles, or it is a tree-hash tile shared by two subtree hashes, or (honest) >=3 tiles planned; publish = >=2 growth steps; path = valid tile or accepted string. Distinct by JSON rendering. The hashes the first ReadHashes returned are compared with the reference again after the second read on the same reader. 1% of the read cases ask in one call for the record hash of every, every second or every third record of a log of 300-9000 records (thousands of tiles in one plan). Tile numbers of the path round trip go up to MaxInt64.",
		"merkleref reference tiles are correct; SHA-256 collision-free", "tree has at least one record; requested positions are non-negative", "ParseTilePath accepting L>63 (outside Tile's documented range) is not asserted against")
}

func TestMain(m *testing.M) { pbt.Main(m) }

// position is the closed-form dense layout position (validated in C09 against the enumerator).
func position(level int, off int64) int64 {
	i := (off+1)<<uint(level) - 1
	return 2*i - int64(bits.OnesCount64(uint64(i))) + int64(level)
}

type coord struct {
	Level  int
	Offset int64
}

type fault struct {
	Ord  int // which of the requested tiles (mod number requested)
	Kind string
	I, J int
	Bit  int
	DL   int   // other-tile: level delta
	DN   int64 // other-tile: number delta
	P    int64 // foreign: length of the shared prefix
	Call int   // which ReadHashes call on the same reader the fault belongs to (0 = first)
}

type readCase struct {
	Seed    int64
	N       int64
	H       int
	Coords  []coord
	Coords2 []coord // a second ReadHashes call on the SAME reader (nil = none)
	Faults  []fault
	Bulk    int `json:",omitempty"` // >0: the first read asks for the record hash of every Bulk'th record (hundreds to thousands of tiles in one call)
}

var faultKinds = []string{"bit", "bit", "bit", "swap", "dup", "other-tile", "other-tile", "foreign", "foreign", "trunc-byte", "trunc-hash", "ext-byte", "ext-hash", "empty", "zero", "fewer-slices", "more-slices", "error", "vouch", "vouch"}

func genN(t *rapid.T, max int64) int64 {
	switch rapid.IntRange(0, 9).Draw(t, "nk") {
	case 0, 1, 2:
		return rapid.Int64Range(1, 40).Draw(t, "nsmall")
	case 3, 4:
		k := rapid.IntRange(1, 12).Draw(t, "pow")
		v := int64(1)<<uint(k) + int64(rapid.IntRange(-1, 1).Draw(t, "d"))
		if v > max {
			v = max
		}
		return v
	case 5, 6:
		// all-ones low bits: many subtree hashes share tiles
		k := rapid.IntRange(2, 12).Draw(t, "ones")
		v := int64(1)<<uint(k) - 1
		if rapid.Bool().Draw(t, "hi") {
			v += int64(1) << uint(k+rapid.IntRange(1, 3).Draw(t, "gap"))
		}
		if v > max {
			v = max
		}
		return v
	}
	return rapid.Int64Range(1, max).Draw(t, "n")
}

func genCoordIn(t *rapid.T, n int64) coord {
	maxLevel := bits.Len64(uint64(n)) - 1
	l := 0
	if rapid.IntRange(0, 2).Draw(t, "lvl") == 0 {
		l = rapid.IntRange(0, maxLevel).Draw(t, "level")
	}
	cnt := n >> uint(l)
	off := rapid.Int64Range(0, cnt-1).Draw(t, "off")
	if rapid.IntRange(0, 3).Draw(t, "edge") == 0 {
		off = []int64{0, cnt - 1, cnt / 2}[rapid.IntRange(0, 2).Draw(t, "offedge")]
	}
	return coord{l, off}
}

func genFault(t *rapid.T) fault {
	return fault{
		Ord:  rapid.IntRange(0, 12).Draw(t, "ord"),
		Kind: faultKinds[rapid.IntRange(0, len(faultKinds)-1).Draw(t, "kind")],
		I:    rapid.IntRange(0, 2000).Draw(t, "i"),
		J:    rapid.IntRange(0, 2000).Draw(t, "j"),
		Bit:  rapid.IntRange(0, 7).Draw(t, "bit"),
		DL:   rapid.IntRange(-1, 1).Draw(t, "dl"),
		DN:   int64(rapid.IntRange(-2, 2).Draw(t, "dn")),
		P:    rapid.Int64Range(0, 64).Draw(t, "p"),
	}
}

func genRead(t *rapid.T) readCase {
	max := int64(1200)
	if pbt.Thorough() {
		max = 5000
	}
	c := readCase{Seed: int64(rapid.IntRange(0, 3).Draw(t, "seed")), N: genN(t, max)}
	c.H = []int{1, 2, 2, 3, 3, 4, 8, 10}[rapid.IntRange(0, 7).Draw(t, "h")]
	nc := rapid.IntRange(0, 4).Draw(t, "ncoords")
	if rapid.IntRange(0, 9).Draw(t, "many") == 0 {
		nc = rapid.IntRange(5, 20).Draw(t, "ncoords2")
	}
	for i := 0; i < nc; i++ {
		c.Coords = append(c.Coords, genCoordIn(t, c.N))
	}
	if gen.Chance(t, 1, "bulk") {
		// one call that plans more tiles than any batch size a reader or the code itself might use (100, 256, 1000, 1024, 4096)
		sh := [][2]int64{{1, 300}, {1, 1500}, {2, 1100}, {2, 4500}, {3, 9000}, {1, 5000}}[gen.Uniform(t, 6, "bulkshape")]
		c.H, c.N, c.Coords = int(sh[0]), sh[1]+int64(rapid.IntRange(0, 9).Draw(t, "bulkextra")), nil
		c.Bulk = []int{1, 1, 2, 3}[gen.Uniform(t, 4, "bulkevery")]
	}
	second := rapid.IntRange(0, 3).Draw(t, "second") == 0
	if second {
		n2 := rapid.IntRange(1, 3).Draw(t, "ncoords2")
		for i := 0; i < n2; i++ {
			if len(c.Coords) > 0 && rapid.Bool().Draw(t, "samecoord") {
				c.Coords2 = append(c.Coords2, c.Coords[rapid.IntRange(0, len(c.Coords)-1).Draw(t, "ci")])
			} else {
				c.Coords2 = append(c.Coords2, genCoordIn(t, c.N))
			}
		}
	}
	nf := []int{0, 1, 1, 1, 1, 2, 3}[rapid.IntRange(0, 6).Draw(t, "nfaults")]
	for i := 0; i < nf; i++ {
		f := genFault(t)
		if second && rapid.Bool().Draw(t, "incall2") {
			f.Call = 1
		}
		if f.Kind == "foreign" && rapid.Bool().Draw(t, "pnear") {
			f.P = rapid.Int64Range(0, c.N).Draw(t, "pn")
		}
		c.Faults = append(c.Faults, f)
	}
	return c
}

// tileInTree reports whether the tile's hashes are all complete subtrees of a tree of n records.
func tileInTree(t tlog.Tile, n int64) bool {
	if t.H < 1 || t.L < 0 || t.N < 0 || t.W < 1 || t.W > 1<<uint(t.H) || t.H*t.L > 62 {
		return false
	}
	return (t.N<<uint(t.H)+int64(t.W))<<uint(t.H*t.L) <= n
}

type served struct {
	tile      tlog.Tile
	delivered []byte
	truth     []byte
}

// faultyReader serves reference tiles with faults; it records what it served and what was saved.
type faultyReader struct {
	key     tlogutil.Key
	n       int64
	h       int
	faults  []fault
	served  []served
	saved   []served
	calls   int
	reqErr  bool
	slicesD int // +1 / -1 for more/fewer slices
	vouched int // number of parent tiles forged to vouch for a forged child
}

func (r *faultyReader) Height() int { return r.h }

func (r *faultyReader) truth(t tlog.Tile) ([]byte, error) {
	if !tileInTree(t, r.n) || t.H != r.h {
		return nil, fmt.Errorf("tile %v not in tree of size %d", t.Path(), r.n)
	}
	return tlogutil.ForkedTree(r.key, r.n).TileData(t.H, t.L, t.N, t.W), nil
}

func (r *faultyReader) ReadTiles(tiles []tlog.Tile) ([][]byte, error) {
	r.calls++
	out := make([][]byte, len(tiles))
	for i, t := range tiles {
		d, err := r.truth(t)
		if err != nil {
			return nil, err
		}
		out[i] = d
		r.served = append(r.served, served{tile: t, truth: d})
	}
	base := len(r.served) - len(tiles)
	for _, f := range r.faults {
		if len(tiles) == 0 {
			break
		}
		if f.Call != r.calls-1 {
			continue
		}
		k := f.Ord % len(tiles)
		t := tiles[k]
		d := append([]byte(nil), out[k]...)
		w := len(d) / 32
		kind := f.Kind
		if w == 0 && (kind == "bit" || kind == "swap" || kind == "dup" || kind == "trunc-byte" || kind == "trunc-hash" || kind == "ext-hash" || kind == "other-tile" || kind == "vouch") {
			kind = "ext-byte" // earlier faults left nothing to work on
		}
		switch kind {
		case "bit":
			d[f.I%len(d)] ^= 1 << uint(f.Bit)
		case "swap":
			a, b := f.I%w, f.J%w
			tmp := append([]byte(nil), d[a*32:a*32+32]...)
			copy(d[a*32:], d[b*32:b*32+32])
			copy(d[b*32:], tmp)
		case "dup":
			a, b := f.I%w, f.J%w
			copy(d[b*32:b*32+32], d[a*32:a*32+32])
		case "other-tile":
			o := tlog.Tile{H: t.H, L: t.L + f.DL, N: t.N + f.DN, W: t.W}
			if od, err := r.truth(o); err == nil {
				d = od
			} else {
				d[f.I%len(d)] ^= 0x80
			}
		case "foreign":
			fk := tlogutil.Key{A: r.key.A, B: r.key.A + 1000, P: f.P}
			d = tlogutil.ForkedTree(fk, r.n).TileData(t.H, t.L, t.N, t.W)
		case "trunc-byte":
			d = d[:len(d)-1]
		case "trunc-hash":
			d = d[:len(d)-32]
		case "ext-byte":
			d = append(d, byte(f.I))
		case "ext-hash":
			d = append(d, d[:32]...)
		case "empty":
			d = nil
		case "zero":
			d = make([]byte, len(d))
		case "vouch":
			// a forged tile together with ancestors forged to vouch for it: the tile gets one bit flipped, and the
			// entry for it in its parent tile (when the parent is part of the same request) is replaced by the hash
			// of the forged content, so that tile and parent agree with each other and the parent disagrees with
			// ITS parent; with J odd the grandparent vouches for the forged parent as well, and so on upwards.
			d[f.I%len(d)] ^= 1 << uint(f.Bit)
			child, cd := t, d
			for up := 0; up <= f.J%3 && child.W == 1<<uint(child.H); up++ {
				pk := -1
				for j, pt := range tiles {
					if pt.L == child.L+1 && pt.N == child.N>>uint(child.H) && int(child.N&(1<<uint(child.H)-1)) < pt.W {
						pk = j
					}
				}
				if pk < 0 || pk == k {
					break
				}
				pd := append([]byte(nil), out[pk]...)
				idx := int(child.N & (1<<uint(child.H) - 1))
				if len(pd) < idx*32+32 {
					break
				}
				th := fullTileHash(cd)
				copy(pd[idx*32:], th[:])
				out[pk] = pd
				r.vouched++
				child, cd = tiles[pk], pd
			}
		case "fewer-slices":
			r.slicesD = -1
		case "more-slices":
			r.slicesD = +1
		case "error":
			r.reqErr = true
		}
		out[k] = d
	}
	for i := range tiles {
		r.served[base+i].delivered = out[i]
	}
	if r.reqErr {
		return nil, errors.New("injected read error")
	}
	switch r.slicesD {
	case -1:
		if len(out) > 0 {
			out = out[:len(out)-1]
		}
	case +1:
		out = append(out, make([]byte, 32))
	}
	return out, nil
}

// fullTileHash is the hash a parent tile records for a full child tile: the RFC 6962 node hash
// over the child's 2^H hashes, pairwise.
func fullTileHash(d []byte) [32]byte {
	var hs [][32]byte
	for i := 0; i+32 <= len(d); i += 32 {
		var h [32]byte
		copy(h[:], d[i:])
		hs = append(hs, h)
	}
	for len(hs) > 1 {
		var next [][32]byte
		for i := 0; i+1 < len(hs); i += 2 {
			next = append(next, sha256.Sum256(append(append([]byte{1}, hs[i][:]...), hs[i+1][:]...)))
		}
		hs = next
	}
	if len(hs) == 0 {
		return [32]byte{}
	}
	return hs[0]
}

func (r *faultyReader) SaveTiles(tiles []tlog.Tile, data [][]byte) {
	for i, t := range tiles {
		var d []byte
		if i < len(data) {
			d = data[i]
		}
		truth, _ := r.truth(t)
		r.saved = append(r.saved, served{tile: t, delivered: d, truth: truth})
	}
}

func okRead(c readCase) bool {
	if c.N < 1 || c.N > 100000 || c.H < 1 || c.H > 12 || len(c.Coords) > 64 || c.Bulk < 0 || len(c.Faults) > 8 {
		return false
	}
	for _, co := range append(append([]coord{}, c.Coords...), c.Coords2...) {
		if co.Level < 0 || co.Level > 40 || co.Offset < 0 || (co.Offset+1)<<uint(co.Level) > c.N {
			return false
		}
	}
	if len(c.Coords2) > 64 {
		return false
	}
	for _, f := range c.Faults {
		if f.I < 0 || f.J < 0 || f.Ord < 0 || f.Bit < 0 || f.Bit > 7 || f.P < 0 || f.Call < 0 || f.Call > 1 {
			return false
		}
	}
	return true
}

// treeHashTiles lists, for classification only, the tiles that hold the subtree hashes of the
// tree hash, and how many of those hashes each holds.
func treeHashTiles(n int64, h int) map[tlog.Tile]int {
	out := map[tlog.Tile]int{}
	lo := int64(0)
	for lo < n {
		k := int64(1)
		lvl := 0
		for k*2 <= n-lo {
			k *= 2
			lvl++
		}
		// subtree (lvl, lo>>lvl) lives in tile level lvl/h
		L := lvl / h
		off := lo >> uint(lvl) << uint(lvl-L*h) // offset at tile's bottom level
		N := off >> uint(h)
		out[tlog.Tile{H: h, L: L, N: N}]++
		lo += k
	}
	return out
}

func checkRead(c readCase) pbt.Result {
	r := pbt.Result{}
	if !okRead(c) {
		r.Skip = true
		return r
	}
	if c.Bulk > 0 && c.Bulk <= 64 && c.N <= 20000 {
		c.Coords = nil
		for off := int64(0); off < c.N; off += int64(c.Bulk) {
			c.Coords = append(c.Coords, coord{Level: 0, Offset: off})
		}
		r.Classes = append(r.Classes, "bulk read")
	}
	key := tlogutil.Key{A: c.Seed, B: c.Seed, P: 0}
	tree := tlogutil.ForkedTree(key, c.N)
	rd := &faultyReader{key: key, n: c.N, h: c.H, faults: c.Faults}
	thr := tlog.TileHashReader(tlog.Tree{N: c.N, Hash: tlog.Hash(tree.MTH(0, c.N))}, rd)
	thTiles := treeHashTiles(c.N, c.H)
	if len(thTiles) < bits.OnesCount64(uint64(c.N)) {
		r.Classes = append(r.Classes, "tree-hash tiles coincide")
	}
	calls := [][]coord{c.Coords}
	if len(c.Coords2) > 0 {
		calls = append(calls, c.Coords2)
		r.Classes = append(r.Classes, "two reads on one reader")
	}
	var heldGot []tlog.Hash // the first read's result, held across the second read
	var heldWant []merkleref.Hash
	for ci, coords := range calls {
		var indexes []int64
		var want []merkleref.Hash
		for _, co := range coords {
			indexes = append(indexes, position(co.Level, co.Offset))
			want = append(want, tree.At(merkleref.Coord{Level: co.Level, Offset: co.Offset}))
		}
		servedBefore, savedBefore := len(rd.served), len(rd.saved)
		rd.reqErr, rd.slicesD = false, 0
		keepIdx := append([]int64(nil), indexes...)
		got, err := thr.ReadHashes(indexes)
		if fmt.Sprint(indexes) != fmt.Sprint(keepIdx) {
			r.Fail = pbt.Failf("reader-writes-indexes", "ReadHashes changed the caller's index slice: %v -> %v", keepIdx, indexes)
			return r
		}

		// classify what was delivered in this call
		anyDiff := false
		for _, s := range rd.served[servedBefore:] {
			if !bytes.Equal(s.delivered, s.truth) {
				anyDiff = true
				k := tlog.Tile{H: s.tile.H, L: s.tile.L, N: s.tile.N}
				switch cnt := thTiles[k]; {
				case cnt == 0:
					r.NonTrivial = true
					r.Classes = append(r.Classes, "corrupt child tile (reached through a parent)")
				case cnt >= 2:
					r.NonTrivial = true
					r.Classes = append(r.Classes, "corrupt tree-hash tile shared by >=2 subtree hashes")
				default:
					r.Classes = append(r.Classes, "corrupt tree-hash tile")
				}
				if ci > 0 {
					r.Classes = append(r.Classes, "corruption on a later read of the same reader")
				}
			}
		}
		if rd.vouched > 0 {
			r.NonTrivial = true
			r.Classes = append(r.Classes, "forged tile with a parent forged to vouch for it")
		}
		honest := !anyDiff && !rd.reqErr && rd.slicesD == 0
		if honest && len(rd.served)-servedBefore >= 3 {
			r.NonTrivial = true
		}
		if honest {
			r.Classes = append(r.Classes, "honest")
		}
		// every tile passed on for saving is the true tile
		for _, s := range rd.saved[savedBefore:] {
			if s.truth == nil || !bytes.Equal(s.delivered, s.truth) {
				r.Fail = pbt.Failf("saved-unauthenticated-tile", "N=%d H=%d read %d: tile %v was passed to SaveTiles with content that is not the true tile (read err=%v)", c.N, c.H, ci, s.tile.Path(), err)
				return r
			}
		}
		if err != nil {
			if honest {
				r.Fail = pbt.Failf("honest-read-failed", "N=%d H=%d read %d indexes=%v: honest tiles but ReadHashes failed: %v", c.N, c.H, ci, indexes, err)
				return r
			}
			r.Classes = append(r.Classes, "read failed")
			continue
		}
		if len(got) != len(indexes) {
			r.Fail = pbt.Failf("result-length", "ReadHashes returned %d hashes for %d indexes", len(got), len(indexes))
			return r
		}
		for i := range got {
			if merkleref.Hash(got[i]) != want[i] {
				r.Fail = pbt.Failf("wrong-hash-returned", "N=%d H=%d read %d: ReadHashes returned a hash for position %d (level %d offset %d) that is not the true stored hash; faults=%+v", c.N, c.H, ci, indexes[i], coords[i].Level, coords[i].Offset, c.Faults)
				return r
			}
		}
		if anyDiff {
			r.Classes = append(r.Classes, "corruption did not affect the result (accepted, result true)")
		}
		if ci == 0 {
			heldGot, heldWant = got, want
		}
	}
	for i := range heldGot {
		if merkleref.Hash(heldGot[i]) != heldWant[i] {
			r.Fail = pbt.Failf("result-changed-later", "N=%d H=%d: the hashes the first ReadHashes returned were true when returned and are not after the second read on the same reader (entry %d)", c.N, c.H, i)
			return r
		}
	}
	return r
}

// ---- out-of-tree indexes

type oobCase struct {
	Seed int64
	N    int64
	H    int
	Over int64
}

func genOOB(t *rapid.T) oobCase {
	return oobCase{Seed: 0, N: genN(t, 600), H: rapid.IntRange(1, 4).Draw(t, "h"), Over: rapid.Int64Range(0, 50).Draw(t, "over")}
}

func checkOOB(c oobCase) pbt.Result {
	r := pbt.Result{NonTrivial: true}
	if c.N < 1 || c.N > 10000 || c.H < 1 || c.H > 12 || c.Over < 0 {
		r.Skip = true
		return r
	}
	key := tlogutil.Key{A: c.Seed, B: c.Seed}
	tree := tlogutil.ForkedTree(key, c.N)
	rd := &faultyReader{key: key, n: c.N, h: c.H}
	thr := tlog.TileHashReader(tlog.Tree{N: c.N, Hash: tlog.Hash(tree.MTH(0, c.N))}, rd)
	count := 2*c.N - int64(bits.OnesCount64(uint64(c.N)))
	idx := count + c.Over
	got, err := thr.ReadHashes([]int64{0, idx})
	if err == nil {
		r.Fail = pbt.Failf("out-of-tree-index", "N=%d: position %d is beyond the %d stored hashes but ReadHashes returned %v", c.N, idx, count, got)
	}
	return r
}

// ---- publisher sufficiency

type publishCase struct {
	Seed  int64
	H     int
	Sizes []int64 // strictly increasing, first > 0
}

func genPublish(t *rapid.T) publishCase {
	c := publishCase{Seed: int64(rapid.IntRange(0, 1).Draw(t, "seed")), H: []int{1, 2, 2, 3, 4}[rapid.IntRange(0, 4).Draw(t, "h")]}
	steps := rapid.IntRange(1, 6).Draw(t, "steps")
	cur := int64(0)
	for i := 0; i < steps; i++ {
		var d int64
		switch rapid.IntRange(0, 3).Draw(t, "dk") {
		case 0:
			d = 1
		case 1:
			d = rapid.Int64Range(1, 5).Draw(t, "dsmall")
		default:
			d = rapid.Int64Range(1, 70).Draw(t, "d")
		}
		cur += d
		c.Sizes = append(c.Sizes, cur)
	}
	return c
}

type publishedReader struct {
	faultyReader
	published map[tlog.Tile]bool
	missing   []tlog.Tile
}

func (p *publishedReader) ReadTiles(tiles []tlog.Tile) ([][]byte, error) {
	for _, t := range tiles {
		full := t
		full.W = 1 << uint(t.H)
		if !p.published[t] && !p.published[full] {
			p.missing = append(p.missing, t)
		}
	}
	return p.faultyReader.ReadTiles(tiles)
}

func checkPublish(c publishCase) pbt.Result {
	r := pbt.Result{NonTrivial: len(c.Sizes) >= 2}
	if c.H < 1 || c.H > 8 || len(c.Sizes) == 0 || len(c.Sizes) > 12 {
		r.Skip = true
		return r
	}
	prev := int64(0)
	for _, s := range c.Sizes {
		if s <= prev || s > 2000 {
			r.Skip = true
			return r
		}
		prev = s
	}
	key := tlogutil.Key{A: c.Seed, B: c.Seed}
	published := map[tlog.Tile]bool{}
	old := int64(0)
	for _, n := range c.Sizes {
		tiles := tlog.NewTiles(c.H, old, n)
		seen := map[tlog.Tile]bool{}
		for _, t := range tiles {
			if !tileInTree(t, n) || t.H != c.H {
				r.Fail = pbt.Failf("newtiles-outside-tree", "NewTiles(%d,%d,%d) lists %v which is not a tile of the tree of size %d", c.H, old, n, t.Path(), n)
				return r
			}
			if tileInTree(t, old) {
				r.Fail = pbt.Failf("newtiles-not-new", "NewTiles(%d,%d,%d) lists %v which already existed in the tree of size %d", c.H, old, n, t.Path(), old)
				return r
			}
			if seen[t] {
				r.Fail = pbt.Failf("newtiles-duplicate", "NewTiles(%d,%d,%d) lists %v twice", c.H, old, n, t.Path())
				return r
			}
			seen[t] = true
			published[t] = true
		}
		// every position of the tree of size n must be readable from what has been published so far
		tree := tlogutil.ForkedTree(key, n)
		rd := &publishedReader{faultyReader: faultyReader{key: key, n: n, h: c.H}, published: published}
		thr := tlog.TileHashReader(tlog.Tree{N: n, Hash: tlog.Hash(tree.MTH(0, n))}, rd)
		layout := merkleref.Layout(n)
		var indexes []int64
		for p := range layout {
			indexes = append(indexes, int64(p))
		}
		got, err := thr.ReadHashes(indexes)
		if err != nil {
			r.Fail = pbt.Failf("publish-read-failed", "H=%d sizes=%v: reading all positions of tree %d failed: %v", c.H, c.Sizes, n, err)
			return r
		}
		for p, co := range layout {
			if merkleref.Hash(got[p]) != tree.At(co) {
				r.Fail = pbt.Failf("publish-wrong-hash", "H=%d tree %d position %d wrong", c.H, n, p)
				return r
			}
		}
		if len(rd.missing) > 0 {
			r.Fail = pbt.Failf("publish-insufficient", "H=%d growth %v: reading tree of size %d needs tile %v, which no NewTiles call so far listed (neither it nor its full form)", c.H, c.Sizes, n, rd.missing[0].Path())
			return r
		}
		// TreeHash through tiles as well
		if th, err := tlog.TreeHash(n, thr); err != nil || merkleref.Hash(th) != tree.MTH(0, n) {
			r.Fail = pbt.Failf("publish-treehash", "TreeHash(%d) through published tiles: %v", n, err)
			return r
		}
		old = n
	}
	return r
}

// ---- tile data access

type tileDataCase struct {
	Seed int64
	N    int64
	H    int
	C    coord
	Wide int // extra width
}

func genTileData(t *rapid.T) tileDataCase {
	c := tileDataCase{Seed: int64(rapid.IntRange(0, 2).Draw(t, "seed")), N: genN(t, 1200), H: rapid.IntRange(1, 6).Draw(t, "h")}
	c.C = genCoordIn(t, c.N)
	c.Wide = rapid.IntRange(0, 70).Draw(t, "wide")
	return c
}

func checkTileData(c tileDataCase) pbt.Result {
	r := pbt.Result{NonTrivial: c.C.Level >= 1 || c.N >= 3}
	if !okRead(readCase{N: c.N, H: c.H, Coords: []coord{c.C}}) || c.Wide < 0 {
		r.Skip = true
		return r
	}
	tree := tlogutil.Tree(c.Seed, c.N)
	idx := position(c.C.Level, c.C.Offset)
	t := tlog.TileForIndex(c.H, idx)
	// the narrowest tile holding the position: level/H, and the width just covers the subtree
	lvlIn := c.C.Level - (c.C.Level/c.H)*c.H
	wantL := c.C.Level / c.H
	bottomOff := c.C.Offset << uint(lvlIn)
	wantN := bottomOff >> uint(c.H)
	wantW := int(bottomOff - wantN<<uint(c.H) + int64(1)<<uint(lvlIn))
	if t.H != c.H || t.L != wantL || t.N != wantN || t.W != wantW {
		r.Fail = pbt.Failf("tileforindex", "TileForIndex(%d, position of level %d offset %d) = %+v, want L=%d N=%d W=%d", c.H, c.C.Level, c.C.Offset, t, wantL, wantN, wantW)
		return r
	}
	store := tlogutil.Store(c.Seed, c.N)
	for _, w := range []int{t.W, t.W + c.Wide} {
		tt := t
		tt.W = w
		if tt.W > 1<<uint(c.H) {
			tt.W = 1 << uint(c.H)
		}
		if !tileInTree(tt, c.N) {
			continue
		}
		data, err := tlog.ReadTileData(tt, tlogutil.Reader(store))
		want := tree.TileData(tt.H, tt.L, tt.N, tt.W)
		if err != nil || !bytes.Equal(data, want) {
			r.Fail = pbt.Failf("readtiledata", "ReadTileData(%v) differs from the true tile (%v)", tt.Path(), err)
			return r
		}
		h, err := tlog.HashFromTile(tt, data, idx)
		if err != nil || merkleref.Hash(h) != tree.At(merkleref.Coord{Level: c.C.Level, Offset: c.C.Offset}) {
			r.Fail = pbt.Failf("hashfromtile", "HashFromTile(%v, position %d) = %v, %v; not the true hash", tt.Path(), idx, h, err)
			return r
		}
		// a narrower tile than needed must be refused
		if t.W > 1 {
			nt := t
			nt.W = t.W - 1
			if _, err := tlog.HashFromTile(nt, data[:nt.W*32], idx); err == nil {
				r.Fail = pbt.Failf("hashfromtile-narrow", "HashFromTile accepted tile %v which is too narrow for position %d", nt.Path(), idx)
				return r
			}
		}
	}
	return r
}

// ---- tile paths

type pathCase struct {
	T   tlog.Tile
	Str string // if non-empty: parse this string instead
}

func refPath(t tlog.Tile) string {
	digits := strconv.FormatInt(t.N, 10)
	for len(digits)%3 != 0 {
		digits = "0" + digits
	}
	var groups []string
	for i := 0; i < len(digits); i += 3 {
		g := digits[i : i+3]
		if i+3 < len(digits) {
			g = "x" + g
		}
		groups = append(groups, g)
	}
	level := strconv.Itoa(t.L)
	if t.L == -1 {
		level = "data"
	}
	s := "tile/" + strconv.Itoa(t.H) + "/" + level + "/" + strings.Join(groups, "/")
	if t.W != 1<<uint(t.H) {
		s += ".p/" + strconv.Itoa(t.W)
	}
	return s
}

func genPath(t *rapid.T) pathCase {
	h := rapid.IntRange(1, 30).Draw(t, "h")
	if rapid.Bool().Draw(t, "smallh") {
		h = rapid.IntRange(1, 10).Draw(t, "h2")
	}
	tile := tlog.Tile{H: h, L: rapid.IntRange(-1, 63).Draw(t, "l")}
	nb := rapid.IntRange(0, 63).Draw(t, "nbits")
	if nb > 0 {
		tile.N = rapid.Int64Range(0, int64(1)<<uint(nb-1)-1+int64(1)<<uint(nb-1)).Draw(t, "n")
	}
	if rapid.IntRange(0, 3).Draw(t, "nedge") == 0 {
		// (the last entries: the largest tile numbers an int64 holds, where "times 1000 plus the next group" is about to overflow)
		tile.N = []int64{0, 999, 1000, 1001, 999999, 1000000, 1<<62 - 1, 1234067, 1 << 62, 1<<63 - 1, 1<<63 - 2, 9223372036854775000, 9223372036854774999, 9223372036854775806 - 999, 1000000000000000000, 999999999999999999}[gen.Uniform(t, 16, "ne")]
	}
	tile.W = 1 << uint(h)
	if rapid.Bool().Draw(t, "partial") {
		tile.W = rapid.IntRange(1, 1<<uint(h)).Draw(t, "w")
	}
	c := pathCase{T: tile}
	if gen.Chance(t, 6, "bignumber") {
		// canonical spelling of a tile number of 19 to 27 digits: around and beyond 2^63 and 2^64
		groups := rapid.IntRange(7, 9).Draw(t, "groups")
		num := ""
		for g := 0; g < groups; g++ {
			d := rapid.IntRange(0, 999).Draw(t, "grp")
			if g == 0 {
				d = []int{1, 4, 9, 18, 36, 92, 184, 999, rapid.IntRange(1, 999).Draw(t, "lead")}[gen.Uniform(t, 9, "leadk")]
			}
			if g < groups-1 {
				num += fmt.Sprintf("x%03d/", d)
			} else {
				num += fmt.Sprintf("%03d", d)
			}
		}
		if gen.Chance(t, 30, "exact") {
			num = []string{"x009/x223/x372/x036/x854/x775/807", "x009/x223/x372/x036/x854/x775/808", "x018/x446/x744/x073/x709/x551/615", "x018/x446/x744/x073/x709/x551/616", "x018/x446/x744/x073/x709/x552/000", "x004/x611/x686/x018/x427/x387/903", "x004/x611/x686/x018/x427/x387/904"}[gen.Uniform(t, 7, "exactv")]
		}
		c.Str = fmt.Sprintf("tile/%d/%d/%s", tile.H, tile.L, num)
		if tile.L < 0 {
			c.Str = fmt.Sprintf("tile/%d/data/%s", tile.H, num)
		}
		if tile.W < 1<<uint(tile.H) {
			c.Str += fmt.Sprintf(".p/%d", tile.W)
		}
		return c
	}
	switch rapid.IntRange(0, 3).Draw(t, "sk") {
	case 0:
		c.Str = gen.MutateString(t, refPath(tile), 1, []string{"x", "0", "/", ".p", ".p/", "1", "9", "data", "-", "+", " ", "tile/", "00", "000/", "x000/", "/0"})
	case 1:
		c.Str = []string{"tile/3/4/x001/x234/067.p/8", "tile/3/4/x001/x234/067.p/0", "tile/0/0/000", "tile/31/0/000", "tile/3/-1/000", "tile/3/data/000", "tile/3/64/000", "tile/3/0/1", "tile/3/0/0001", "tile/3/0/x000/000", "tile/3/0/000/000", "tile/3/0/x1/000", "tile/03/0/000", "tile/3/00/000", "tile/3/0/000.p/08", "tile/3/0/000.p/+1", "tile/+3/0/000", "tile/3/0/x000.p/1", "tile/3/0/.p/1", "tile/3/0", "tile", "", "tile/3/0/000.p", "tile/3/0/-01"}[rapid.IntRange(0, 23).Draw(t, "fixed")]
	}
	return c
}

func checkTilePath(c pathCase) pbt.Result {
	r := pbt.Result{}
	if c.Str == "" {
		t := c.T
		if t.H < 1 || t.H > 30 || t.L < -1 || t.L > 63 || t.N < 0 || t.W < 1 || t.W > 1<<uint(t.H) {
			r.Skip = true
			return r
		}
		r.NonTrivial = true
		p := t.Path()
		if want := refPath(t); p != want {
			r.Fail = pbt.Failf("path-format", "%+v.Path() = %q, documented encoding %q", t, p, want)
			return r
		}
		back, err := tlog.ParseTilePath(p)
		if err != nil || back != t {
			r.Fail = pbt.Failf("path-roundtrip", "ParseTilePath(%q) = %+v, %v; want %+v", p, back, err, t)
		}
		return r
	}
	t, err := tlog.ParseTilePath(c.Str)
	r.Classes = []string{fmt.Sprintf("string accepted=%v", err == nil)}
	if err != nil {
		return r
	}
	r.NonTrivial = true
	if t.H < 1 || t.H > 30 || t.L < -1 || t.N < 0 || t.W < 1 || t.W > 1<<uint(t.H) {
		r.Fail = pbt.Failf("parse-range", "ParseTilePath(%q) = %+v is outside the documented ranges", c.Str, t)
		return r
	}
	if t.L <= 63 && refPath(t) != c.Str || t.Path() != c.Str {
		r.Fail = pbt.Failf("parse-not-canonical", "ParseTilePath(%q) = %+v whose path is %q", c.Str, t, t.Path())
	}
	return r
}

var subs = []pbt.Sub{
	pbt.New("read", 20000, 60000, genRead, checkRead),
	pbt.New("oob", 2000, 5000, genOOB, checkOOB),
	pbt.New("publish", 1500, 5000, genPublish, checkPublish),
	pbt.New("tiledata", 15000, 50000, genTileData, checkTileData),
	pbt.New("path", 30000, 100000, genPath, checkTilePath),
	pbt.New("huge", 10000, 40000, genHuge, checkHuge),
	pbt.New("hugepublish", 2000, 4000, genHugePub, checkHugePub),
}

func TestGen(t *testing.T)    { pbt.RunAll(t, subs) }
func TestReplay(t *testing.T) { pbt.Replay(t, subs) }

// TestEnum: bounded exhaustive single-fault enumeration.
// For every N up to the bound, H in the set, every single stored position, every tile the
// honest run requests, and every fault of the menu on that tile.
func TestEnum(t *testing.T) {
	maxN, hs := int64(20), []int{1, 2, 3}
	if pbt.Thorough() {
		maxN, hs = 96, []int{1, 2, 3, 4}
	}
	shard, nshards := pbt.Shard()
	failed := false
	for n := int64(1); n <= maxN && !failed; n++ {
		if int(n)%nshards != shard {
			continue
		}
		for _, h := range hs {
			layout := merkleref.Layout(n)
			for _, co := range layout {
				base := readCase{Seed: 0, N: n, H: h, Coords: []coord{{co.Level, co.Offset}}}
				// honest run to learn which tiles are requested
				key := tlogutil.Key{}
				tree := tlogutil.ForkedTree(key, n)
				rd := &faultyReader{key: key, n: n, h: h}
				thr := tlog.TileHashReader(tlog.Tree{N: n, Hash: tlog.Hash(tree.MTH(0, n))}, rd)
				if _, err := thr.ReadHashes([]int64{position(co.Level, co.Offset)}); err != nil {
					pbt.ReportEnum(t, "read", base, pbt.Failf("honest-read-failed", "N=%d H=%d position (%d,%d): %v", n, h, co.Level, co.Offset, err))
					return
				}
				res := checkRead(base)
				pbt.Count("enum-honest", base, res)
				if res.Fail != nil {
					pbt.ReportEnum(t, "read", base, res.Fail)
					return
				}
				for ord, s := range rd.served {
					w := s.tile.W
					var menu []fault
					for i := 0; i < w; i++ {
						menu = append(menu, fault{Ord: ord, Kind: "bit", I: i*32 + int(n+int64(i))%32, Bit: int(n) % 8})
						if i+1 < w {
							menu = append(menu, fault{Ord: ord, Kind: "swap", I: i, J: i + 1}, fault{Ord: ord, Kind: "dup", I: i, J: i + 1})
						}
					}
					for _, dn := range []int64{-1, 1} {
						menu = append(menu, fault{Ord: ord, Kind: "other-tile", DN: dn})
					}
					for _, dl := range []int{-1, 1} {
						menu = append(menu, fault{Ord: ord, Kind: "other-tile", DL: dl})
					}
					for _, p := range []int64{0, n / 2, n - 1} {
						menu = append(menu, fault{Ord: ord, Kind: "foreign", P: p})
					}
					for _, k := range []string{"trunc-byte", "trunc-hash", "ext-byte", "ext-hash", "empty", "zero"} {
						menu = append(menu, fault{Ord: ord, Kind: k})
					}
					for _, f := range menu {
						cc := base
						cc.Faults = []fault{f}
						res := checkRead(cc)
						pbt.Count("enum-single-fault", cc, res)
						if res.Fail != nil {
							pbt.ReportEnum(t, "read", cc, res.Fail)
							failed = true
							return
						}
					}
				}
			}
		}
	}
	pbt.MarkExhaustive("enum-single-fault")
	pbt.MarkExhaustive("enum-honest")
}

var _ = sort.Ints

// FuzzTilePath: arbitrary strings through ParseTilePath (success => canonical and in range).
func FuzzTilePath(f *testing.F) {
	for _, s := range []string{"tile/3/4/x001/x234/067.p/1", "tile/3/4/x001/x234/067", "tile/8/data/000", "tile/1/0/000.p/1", "tile/30/63/x999/999"} {
		f.Add(s)
	}
	f.Fuzz(func(t *testing.T, s string) {
		c := pathCase{Str: s}
		if s == "" {
			return
		}
		res := checkTilePath(c)
		pbt.Count("fuzz-tilepath", c, res)
		if res.Fail != nil {
			pbt.ReportFuzz(t, "path", c, res.Fail)
		}
	})
}
