package c14

import "path"

// pathMatch is the documented glob (path.Match) used by the GONOSUMDB prefix matching.
func pathMatch(pattern, name string) (bool, error) { return path.Match(pattern, name) }
