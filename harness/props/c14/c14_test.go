// Package c14: concurrent lookups behave like sequential ones and fetch each record once.
package c14

import (
	"bytes"
	"crypto/ed25519"
	"crypto/sha256"
	"encoding/base64"
	"encoding/binary"
	"errors"
	"fmt"
	"net/http/httptest"
	"os"
	"sort"
	"strconv"
	"strings"
	"sync"
	"sync/atomic"
	"testing"

	"golang.org/x/mod/sumdb"
	"pgregory.net/rapid"

	"verif/harness/internal/gen"
	"verif/harness/internal/pbt"
	"verif/harness/internal/sched"
)

func init() {
	pbt.Describe("schedules: the real sumdb.Server over sumdb.NewTestServer is called in-process (ServeHTTP with a recorder; path escaping and record formatting are part of what is checked) and grows as lookups create records, so different goroutines see heads of different sizes; 1-3 clients share one configuration/cache store; 2-5 goroutines per client perform 1-3 lookups each over <= 6 modules including upper-case paths, /go.mod versions, repeated keys and paths matching a generated GONOSUMDB list; tile height in {1,2,3}. Every ClientOps call and every hook yield point (merge:read, merge:install, merge:flush, record:read) parks on a harness-owned scheduler which, whenever no operation runs and no new request has arrived for a grace period, releases one pending request chosen by generated data from the pending set ordered by identity (client, operation, argument, occurrence); operations are thus totally ordered by the generated schedule, and the decision list is the replayable history. Oracle: every lookup succeeds with exactly the server's lines for that module/version; per client at most one ReadCache and one ReadRemote per lookup file; stored head sizes never decrease and the final stored head is the largest head any response carried; a private path returns ErrGONOSUMDB without any external operation. race: the same workload without the scheduler, many goroutines, built with -race (a race report fails the run). Non-trivial: at least two requests were pending at some decision and the history contains either two different head sizes in flight or a lookup key shared by two goroutines of one client. Distinct by the recorded history. 4% of the cases start from a log just below 1000*2^H records, so that the run's own records fill tile number 1000 (the first path with an x001 element). 4% of the cases are bursts of 12-40 goroutines on one client with one lookup of a distinct record each. A deadlock is recognised by observation (no operation pending or running, workers not finished, every goroutine with a sumdb frame on its stack parked on a channel, mutex, condition or wait group in two samples a second apart) and reported as lookups-deadlocked with the schedule.",
		"only interleavings at external operations and the four yield points are controlled, and they are sampled, not enumerated", "late goroutines can make the explorer choose from an incomplete pending set: any schedule produced is legal, so this costs coverage and bit-reproducibility of exploration, never soundness; replay releases requests strictly in the recorded identity order",
		"liveness beyond 'the run ended' is not checked; a run that makes no progress for 20 s is reported as a hang")
}

func TestMain(m *testing.M) { pbt.Main(m) }

// ---- server

var mods = []string{"example.com/a", "rsc.io/Quote", "github.com/Azure/Go-SDK", "example.com/b/v2", "golang.org/x/text", "example.com/UPPER"}
var privateMods = []string{"private.example.com/x", "corp.example.com/secret/y", "git.corp.example.com/z"}

func versionFor(mod string, k int) string {
	major := "v1"
	if strings.HasSuffix(mod, "/v2") {
		major = "v2"
	}
	// versions 3 and 4 of every module have upper-case letters (escaped like paths in requests and cache file
	// names, but not in the go.sum lines), 5 is a pseudo-version
	switch k {
	case 3:
		return major + ".0.3-RC1"
	case 4:
		return major + ".1.0-Beta.2"
	case 5:
		return major + ".0.1-0.20240102030405-ABCdef012345"
	}
	return fmt.Sprintf("%s.0.%d", major, k)
}

func gosum(path, vers string) ([]byte, error) {
	if strings.Contains(path, "missing") {
		return nil, os.ErrNotExist
	}
	h1 := sha256.Sum256([]byte("zip " + path + "@" + vers))
	h2 := sha256.Sum256([]byte("mod " + path + "@" + vers))
	return []byte(fmt.Sprintf("%s %s h1:%s\n%s %s/go.mod h1:%s\n", path, vers, base64.StdEncoding.EncodeToString(h1[:]), path, vers, base64.StdEncoding.EncodeToString(h2[:]))), nil
}

func expectedLines(path, vers string) []string {
	b, _ := gosum(path, strings.TrimSuffix(vers, "/go.mod"))
	var out []string
	for _, l := range strings.Split(string(b), "\n") {
		if strings.HasPrefix(l, path+" "+vers+" ") {
			out = append(out, l)
		}
	}
	return out
}

var (
	keyOnce    sync.Once
	skey, vkey string
)

func keys() (string, string) {
	keyOnce.Do(func() {
		name := "localhost.localdev/sumdb"
		seed := sha256.Sum256([]byte("c14 server key"))
		priv := ed25519.NewKeyFromSeed(seed[:])
		pubkey := append([]byte{1}, priv.Public().(ed25519.PublicKey)...)
		h := sha256.New()
		h.Write([]byte(name))
		h.Write([]byte("\n"))
		h.Write(pubkey)
		hash := binary.BigEndian.Uint32(h.Sum(nil))
		skey = fmt.Sprintf("PRIVATE+KEY+%s+%08x+%s", name, hash, base64.StdEncoding.EncodeToString(append([]byte{1}, seed[:]...)))
		vkey = fmt.Sprintf("%s+%08x+%s", name, hash, base64.StdEncoding.EncodeToString(pubkey))
	})
	return skey, vkey
}

// ---- shared store and per-client operations

type store struct {
	mu     sync.Mutex
	config map[string][]byte
	cache  map[string][]byte
	writes []int64 // sizes of successfully stored heads, in order
}

type opEvent struct {
	client int
	op     string
	arg    string
	head   int64 // for lookup responses: size of the head carried
}

type world struct {
	srv    *sumdb.Server
	st     *store
	sch    *sched.Sched // nil in the race run
	evMu   sync.Mutex
	events []opEvent
	secErr atomic.Int32
}

type clientOps struct {
	w   *world
	idx int
}

func (c *clientOps) do(kind, arg string, op func()) {
	if c.w.sch == nil {
		op()
		return
	}
	c.w.sch.Do(fmt.Sprintf("c%d %s %s", c.idx, kind, arg), op)
}

func (c *clientOps) record(op, arg string, head int64) {
	c.w.evMu.Lock()
	c.w.events = append(c.w.events, opEvent{c.idx, op, arg, head})
	c.w.evMu.Unlock()
}

func headSize(msg []byte) int64 {
	// "go.sum database tree\nN\n..." (server is honest; only the size is needed)
	i := bytes.Index(msg, []byte("go.sum database tree\n"))
	if i < 0 {
		return 0
	}
	rest := msg[i+len("go.sum database tree\n"):]
	j := bytes.IndexByte(rest, '\n')
	if j < 0 {
		return 0
	}
	n, _ := strconv.ParseInt(string(rest[:j]), 10, 64)
	return n
}

func (c *clientOps) ReadRemote(path string) (data []byte, err error) {
	c.do("ReadRemote", path, func() {
		rec := httptest.NewRecorder()
		c.w.srv.ServeHTTP(rec, httptest.NewRequest("GET", path, nil))
		if rec.Code != 200 {
			err = fmt.Errorf("GET %s: %d %s", path, rec.Code, strings.TrimSpace(rec.Body.String()))
			c.record("ReadRemote", path, 0)
			return
		}
		data = rec.Body.Bytes()
		c.record("ReadRemote", path, headSize(data))
	})
	return
}

func (c *clientOps) ReadConfig(file string) (data []byte, err error) {
	c.do("ReadConfig", file, func() {
		c.w.st.mu.Lock()
		defer c.w.st.mu.Unlock()
		d, ok := c.w.st.config[file]
		if !ok && file == "key" {
			err = errors.New("no key")
		}
		data = append([]byte(nil), d...)
		c.record("ReadConfig", file, headSize(data))
	})
	return
}

func (c *clientOps) WriteConfig(file string, old, new []byte) (err error) {
	c.do("WriteConfig", file, func() {
		c.w.st.mu.Lock()
		defer c.w.st.mu.Unlock()
		if !bytes.Equal(c.w.st.config[file], old) {
			err = sumdb.ErrWriteConflict
			c.record("WriteConfig-conflict", file, headSize(new))
			return
		}
		c.w.st.config[file] = append([]byte(nil), new...)
		c.w.st.writes = append(c.w.st.writes, headSize(new))
		c.record("WriteConfig", file, headSize(new))
	})
	return
}

func (c *clientOps) ReadCache(file string) (data []byte, err error) {
	c.do("ReadCache", file, func() {
		c.w.st.mu.Lock()
		defer c.w.st.mu.Unlock()
		d, ok := c.w.st.cache[file]
		if !ok {
			err = os.ErrNotExist
		}
		data = append([]byte(nil), d...)
		c.record("ReadCache", file, headSize(data))
	})
	return
}

func (c *clientOps) WriteCache(file string, data []byte) {
	c.do("WriteCache", file, func() {
		c.w.st.mu.Lock()
		defer c.w.st.mu.Unlock()
		c.w.st.cache[file] = append([]byte(nil), data...)
		c.record("WriteCache", file, 0)
	})
}

func (c *clientOps) Log(msg string) {}
func (c *clientOps) SecurityError(msg string) {
	c.w.secErr.Add(1)
}

// VerifYield is called by the client at its hook points when built with the verif tag.
func (c *clientOps) VerifYield(point string) {
	c.do("yield", point, func() {})
}

// ---- cases

type lookup struct {
	Mod   int // index into mods; >= len(mods): private module
	Ver   int // version counter
	GoMod bool
}

type c14Case struct {
	H        int
	Prewarm  int          // records created on the server before the clients start
	Patterns string       // GONOSUMDB list
	Work     [][][]lookup // client -> goroutine -> lookups
	Choices  []int        // exploration decisions
	History  []string     // when non-empty: replay exactly this schedule
}

var patternLists = []string{"", "private.example.com", "*.corp.example.com,private.example.com/x", "corp.example.com/secret,git.corp.example.com/*", "private.example.com,,corp.example.com/*/y",
	// malformed globs (they match nothing) before, between and after patterns that match
	"[,private.example.com", "x[,*.corp.example.com,private.example.com/x", "corp.example.com/[b-,corp.example.com/secret,git.corp.example.com", "private.example.com/x\\,git.corp.example.com/*,[]", "[a-,[,private.example.com,corp.example.com/*/y",
	// escapes, classes, trailing slashes
	"private\\.example\\.com", "[p]rivate.example.com/,?it.corp.example.com/z/", "*/secret,*/*/y"}

// genPrewarm: mostly a handful of records; sometimes enough that one authenticated read spans many tiles
// (about 40 records at tile height 1, a few hundred at height 2).
func genPrewarm(t *rapid.T) int {
	switch rapid.IntRange(0, 5).Draw(t, "prewarmk") {
	case 0:
		return rapid.IntRange(30, 70).Draw(t, "prewarmmid")
	case 1:
		return []int{127, 128, 255, 300, 511, 600}[rapid.IntRange(0, 5).Draw(t, "prewarmbig")]
	}
	return rapid.IntRange(0, 9).Draw(t, "prewarm")
}

func genCase(t *rapid.T) *c14Case {
	c := &c14Case{H: []int{1, 2, 2, 3}[gen.Uniform(t, 4, "h")], Prewarm: genPrewarm(t), Patterns: patternLists[gen.Uniform(t, len(patternLists), "patterns")]}
	if gen.Chance(t, 4, "largelog") {
		// the log grows through the sizes at which tile number 1000 of level 0 appears and fills up (its path is the
		// first with an "x001" element); new records of this run land in it
		c.Prewarm = 1000<<uint(c.H) - rapid.IntRange(0, 6).Draw(t, "largeshort")
	}
	nc := []int{1, 1, 2, 2, 3}[gen.Uniform(t, 5, "nclients")]
	burst := gen.Chance(t, 4, "burst") // "any number of goroutines": one client, 12 to 40 of them, one lookup each
	if burst {
		nc = 1
	}
	for ci := 0; ci < nc; ci++ {
		ng := rapid.IntRange(2, 5).Draw(t, "ngor")
		if nc > 1 {
			ng = rapid.IntRange(1, 3).Draw(t, "ngor2")
		}
		if burst {
			ng = []int{12, 16, 17, 24, 33, 40}[gen.Uniform(t, 6, "burstn")]
		}
		var gs [][]lookup
		privateOnly := c.Patterns != "" && gen.Chance(t, 15, "privateclient")
		for g := 0; g < ng; g++ {
			nl := rapid.IntRange(1, 3).Draw(t, "nlookups")
			var ls []lookup
			for i := 0; i < nl; i++ {
				l := lookup{Mod: gen.Uniform(t, len(mods), "mod"), Ver: []int{0, 1, 2, 0, 1, 2, 3, 4, 5}[gen.Uniform(t, 9, "ver")], GoMod: rapid.IntRange(0, 3).Draw(t, "gomod") == 0}
				if c.Patterns != "" && (privateOnly || gen.Chance(t, 12, "private")) {
					l.Mod = len(mods) + gen.Uniform(t, len(privateMods), "pm")
				}
				ls = append(ls, l)
			}
			if burst {
				// one lookup per goroutine, mostly of distinct records (so that nothing is shared or cached between them)
				ls = ls[:1]
				if gen.Chance(t, 85, "burstdistinct") {
					ls[0] = lookup{Mod: g % len(mods), Ver: g / len(mods), GoMod: ls[0].GoMod}
				}
			}
			gs = append(gs, ls)
		}
		c.Work = append(c.Work, gs)
	}
	c.Choices = gen.Schedule(t, 150, "sched")
	if burst {
		c.Choices = append(c.Choices, gen.Schedule(t, 350, "sched2")...)
	}
	return c
}

func okCase(c *c14Case) bool {
	if c.H < 1 || c.H > 8 || c.Prewarm < 0 || c.Prewarm > 9000 || len(c.Work) == 0 || len(c.Work) > 4 || len(c.Choices) > 2000 || len(c.History) > 5000 {
		return false
	}
	for _, gs := range c.Work {
		if len(gs) == 0 || len(gs) > 48 {
			return false
		}
		for _, ls := range gs {
			if len(ls) == 0 || len(ls) > 6 {
				return false
			}
			for _, l := range ls {
				if l.Mod < 0 || l.Mod >= len(mods)+len(privateMods) || l.Ver < 0 || l.Ver > 50 {
					return false
				}
			}
		}
	}
	return true
}

func (l lookup) pathVers() (string, string, bool) {
	private := l.Mod >= len(mods)
	var p string
	if private {
		p = privateMods[l.Mod-len(mods)]
	} else {
		p = mods[l.Mod]
	}
	v := versionFor(p, l.Ver)
	if l.GoMod {
		v += "/go.mod"
	}
	return p, v, private
}

// privateBy is the documented prefix-glob match, for the modules and patterns used here.
func privateBy(patterns, path string) bool {
	for _, g := range strings.Split(patterns, ",") {
		g = strings.TrimSuffix(g, "/")
		if g == "" {
			continue
		}
		n := strings.Count(g, "/")
		el := strings.Split(path, "/")
		if len(el) < n+1 {
			continue
		}
		if ok, _ := pathMatch(g, strings.Join(el[:n+1], "/")); ok {
			return true
		}
	}
	return false
}

type outcome struct {
	client, gor, idx int
	path, vers       string
	lines            []string
	err              error
	opsBefore        int
}

func runCase(c *c14Case, useSched bool) (*world, []outcome, *sched.Sched) {
	sk, vk := keys()
	ts := sumdb.NewTestServer(sk, gosum)
	w := &world{srv: sumdb.NewServer(ts), st: &store{config: map[string][]byte{"key": []byte(vk)}, cache: map[string][]byte{}}}
	for i := 0; i < c.Prewarm; i++ {
		rec := httptest.NewRecorder()
		w.srv.ServeHTTP(rec, httptest.NewRequest("GET", fmt.Sprintf("/lookup/example.com/warm@v1.0.%d", i), nil))
	}
	var sch *sched.Sched
	if useSched {
		if len(c.History) > 0 {
			sch = sched.NewReplay(c.History)
		} else {
			sch = sched.New(c.Choices)
		}
		w.sch = sch
	}
	var wg sync.WaitGroup
	var mu sync.Mutex
	var outs []outcome
	var done atomic.Int32
	total := 0
	for ci, gs := range c.Work {
		cl := sumdb.NewClient(&clientOps{w: w, idx: ci})
		cl.SetTileHeight(c.H)
		if c.Patterns != "" {
			cl.SetGONOSUMDB(c.Patterns)
		}
		for gi, ls := range gs {
			total++
			wg.Add(1)
			go func(ci, gi int, ls []lookup) {
				defer wg.Done()
				defer done.Add(1)
				for i, l := range ls {
					p, v, _ := l.pathVers()
					w.evMu.Lock()
					before := len(w.events)
					w.evMu.Unlock()
					lines, err := cl.Lookup(p, v)
					mu.Lock()
					outs = append(outs, outcome{ci, gi, i, p, v, lines, err, before})
					mu.Unlock()
				}
			}(ci, gi, ls)
		}
	}
	if sch != nil {
		sch.Workers = "golang.org/x/mod/sumdb."
		sch.Run(func() bool { return int(done.Load()) == total })
		if sch.Deadlock {
			return w, outs, sch // the lookups will never return; their goroutines are abandoned
		}
	}
	wg.Wait()
	return w, outs, sch
}

func evaluate(c *c14Case, w *world, outs []outcome) *pbt.Failure {
	for _, o := range outs {
		if privateBy(c.Patterns, o.path) {
			if !errors.Is(o.err, sumdb.ErrGONOSUMDB) {
				return pbt.Failf("private-not-skipped", "lookup of %s (GONOSUMDB=%q) returned %v, %v instead of ErrGONOSUMDB", o.path, c.Patterns, o.lines, o.err)
			}
			continue
		}
		if o.err != nil {
			return pbt.Failf("lookup-failed", "client %d goroutine %d: Lookup(%s, %s) failed with an honest server: %v", o.client, o.gor, o.path, o.vers, o.err)
		}
		if want := expectedLines(o.path, o.vers); fmt.Sprint(want) != fmt.Sprint(o.lines) {
			return pbt.Failf("wrong-lines", "client %d goroutine %d: Lookup(%s, %s) = %q, the server's lines are %q", o.client, o.gor, o.path, o.vers, o.lines, want)
		}
	}
	if w.secErr.Load() > 0 {
		return pbt.Failf("security-error", "SecurityError raised with an honest server")
	}
	// a client all of whose lookups are private performs no external operation at all
	for ci, gs := range c.Work {
		all := true
		for _, ls := range gs {
			for _, l := range ls {
				p, _, _ := l.pathVers()
				if !privateBy(c.Patterns, p) {
					all = false
				}
			}
		}
		if !all {
			continue
		}
		for _, e := range w.events {
			if e.client == ci {
				return pbt.Failf("private-external-op", "client %d only looked up modules matching GONOSUMDB=%q, yet it performed %s %s", ci, c.Patterns, e.op, e.arg)
			}
		}
	}
	// no external operation mentions a private module
	type key struct {
		client int
		op     string
		arg    string
	}
	count := map[key]int{}
	var maxHead int64
	for _, e := range w.events {
		for _, pm := range privateMods {
			if privateBy(c.Patterns, pm) && strings.Contains(strings.ToLower(e.arg), strings.ToLower(pm)) {
				return pbt.Failf("private-external-op", "external operation %s %s for a module matching GONOSUMDB=%q", e.op, e.arg, c.Patterns)
			}
		}
		if strings.Contains(e.arg, "/lookup/") && (e.op == "ReadCache" || e.op == "ReadRemote") {
			count[key{e.client, e.op, e.arg}]++
			if e.head > maxHead {
				maxHead = e.head
			}
		}
	}
	for k, n := range count {
		if n > 1 {
			return pbt.Failf("fetched-twice", "client %d performed %s %s %d times", k.client, k.op, k.arg, n)
		}
	}
	// stored heads: monotone, and the final one is the largest head any response carried
	prev := int64(0)
	for _, sz := range w.st.writes {
		if sz < prev {
			return pbt.Failf("stored-head-regressed", "stored head sizes %v", w.st.writes)
		}
		prev = sz
	}
	var final []byte
	for f, v := range w.st.config {
		if strings.HasSuffix(f, "/latest") {
			final = v
		}
	}
	if fs := headSize(final); fs != maxHead {
		return pbt.Failf("final-head-not-maximal", "the largest head carried by a response has size %d, the stored head ends at size %d (writes: %v)", maxHead, fs, w.st.writes)
	}
	return nil
}

func check(c *c14Case) pbt.Result {
	r := pbt.Result{}
	if c == nil || !okCase(c) {
		r.Skip = true
		return r
	}
	w, outs, sch := runCase(c, true)
	if sch.Deadlock {
		nl := 0
		for _, gs := range c.Work {
			nl += len(gs)
		}
		r.NonTrivial = true
		r.Fail = pbt.Failf("lookups-deadlocked", "honest server, %d clients, %d goroutines: the lookups never return: %v\nschedule (%d decisions): %v", len(c.Work), nl, sch.Err, len(sch.History), sch.History)
		if len(c.History) == 0 {
			c.History = append([]string(nil), sch.History...)
			c.Choices = nil
		}
		return r
	}
	if sch.Err != nil {
		// no progress within the scheduler's limit, or a recorded schedule that this code does not follow:
		// inconclusive (liveness is not part of the property; a schedule recorded on other code may not exist here)
		r.Skip = true
		r.Classes = []string{"inconclusive: " + strings.SplitN(sch.Err.Error(), ":", 2)[0]}
		fmt.Printf("INCONCLUSIVE C14: %v\n", sch.Err)
		return r
	}
	// classification
	sharedKey := false
	for _, gs := range c.Work {
		seen := map[string]int{}
		for gi, ls := range gs {
			for _, l := range ls {
				p, v, _ := l.pathVers()
				k := p + "@" + strings.TrimSuffix(v, "/go.mod")
				if g0, ok := seen[k]; ok && g0 != gi {
					sharedKey = true
				}
				seen[k] = gi
			}
		}
	}
	heads := map[int64]bool{}
	for _, e := range w.events {
		if e.op == "ReadRemote" && e.head > 0 {
			heads[e.head] = true
		}
	}
	r.NonTrivial = sch.Contended > 0 && (len(heads) >= 2 || sharedKey)
	r.Key = strings.Join(sch.History, "|")
	r.Classes = []string{fmt.Sprintf("clients=%d", len(c.Work))}
	if len(heads) >= 2 {
		r.Classes = append(r.Classes, "several head sizes in flight")
	}
	if sharedKey {
		r.Classes = append(r.Classes, "lookup key shared by goroutines of one client")
	}
	if f := evaluate(c, w, outs); f != nil {
		// make the failure replayable: attach the schedule
		f.Msg += fmt.Sprintf("\nschedule (%d decisions): %v", len(sch.History), sch.History)
		if len(c.History) == 0 {
			// pin the schedule into the case: the saved replay file then reproduces this interleaving
			c.History = append([]string(nil), sch.History...)
			c.Choices = nil
		}
		r.Fail = f
	}
	return r
}

var subs = []pbt.Sub{
	pbt.New("schedules", 200, 1200, genCase, check),
}

func TestGen(t *testing.T)    { pbt.RunAll(t, subs) }
func TestReplay(t *testing.T) { pbt.Replay(t, subs) }

// TestRaceStress runs the workload without the scheduler with real parallelism; the binary is built with -race.
func TestRaceStress(t *testing.T) {
	rounds := 150
	if pbt.Thorough() {
		rounds = 4000
	}
	seed := uint64(1)
	if s, err := strconv.ParseUint(os.Getenv("VERIF_SEED"), 10, 64); err == nil && s != 0 {
		seed = s
	}
	next := func(n int) int {
		seed = seed*6364136223846793005 + 1442695040888963407
		return int((seed >> 33) % uint64(n))
	}
	for r := 0; r < rounds; r++ {
		c := &c14Case{H: 1 + next(3), Prewarm: []int{next(10), next(10), next(10), 30 + next(40), 100 + next(500)}[next(5)], Patterns: patternLists[next(len(patternLists))]}
		nc := 1 + next(3)
		for ci := 0; ci < nc; ci++ {
			var gs [][]lookup
			for g := 0; g < 2+next(6); g++ {
				var ls []lookup
				for i := 0; i < 1+next(3); i++ {
					l := lookup{Mod: next(len(mods)), Ver: next(3), GoMod: next(4) == 0}
					if c.Patterns != "" && next(8) == 0 {
						l.Mod = len(mods) + next(len(privateMods))
					}
					ls = append(ls, l)
				}
				gs = append(gs, ls)
			}
			c.Work = append(c.Work, gs)
		}
		w, outs, _ := runCase(c, false)
		res := pbt.Result{NonTrivial: true, Key: fmt.Sprint(r)}
		if f := evaluate(c, w, outs); f != nil {
			res.Fail = f
			pbt.Count("race-stress", c, res)
			pbt.ReportEnum(t, "race-stress", c, f)
			return
		}
		pbt.Count("race-stress", c, res)
	}
}

var _ = sort.Strings
