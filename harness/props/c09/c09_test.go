// Package c09: the log's tree hash and stored-hash layout are exactly RFC 6962 for every log.
package c09

import (
	"bytes"
	"encoding/json"
	"fmt"
	"math/bits"
	"strings"
	"sync"
	"testing"
	"unicode/utf8"

	"golang.org/x/mod/sumdb/tlog"
	"pgregory.net/rapid"

	"verif/harness/internal/gen"
	"verif/harness/internal/pbt"
	"verif/harness/internal/ref/merkleref"
	"verif/harness/internal/tlogutil"
)

func init() {
	pbt.Describe("store: logs (seeded record contents of 0-39 bytes) appended one record at a time through StoredHashes into a dense slice, every position checked against the independent layout enumerator and RFC 6962 MTH over leaf data, tree hashes for sampled sizes m<=n; coords: (level<=40, offset) pairs with level+bits(offset)<=60 and raw indexes up to 2^61 against a closed form that is itself validated against the enumerator; tree/record/hash text: generated values and texts (valid, invalid, mutated) through Format/Parse, String/ParseHash and JSON. Non-trivial: store = n>=3; coords = level>=1; texts = a well-formed value or one mutation away. Distinct by JSON rendering. The record case formats up to three further records, a tree head and a parse while the first message is held, then compares every held message with what it read when returned; same for FormatTree. Tree hashes are also computed through a reader that answers requests for consecutive positions with a view into one in-memory store shared by all the tree hashes of a case: same hashes, store unchanged.",
		"merkleref (RFC 6962 over leaf data) and its layout enumerator ('after leaf i, every subtree it completes, bottom-up') are correct",
		"record texts that start with a newline are accepted by FormatRecord although the doc comment forbids blank lines; acceptance of that shape is not asserted, only the round trip",
		"tree sizes stay below 2^62 (stored-hash indexes are int64)")
}

func TestMain(m *testing.M) { pbt.Main(m) }

// ---- store

type storeCase struct {
	Seed int64
	N    int64
	Ms   []int64 // sizes whose tree hash is checked
}

func genStore(t *rapid.T) storeCase {
	max := int64(2000)
	if pbt.Thorough() {
		max = 20000
	}
	c := storeCase{Seed: int64(rapid.IntRange(0, 3).Draw(t, "seed"))}
	switch rapid.IntRange(0, 5).Draw(t, "nk") {
	case 0, 1:
		c.N = rapid.Int64Range(0, 40).Draw(t, "nsmall")
	case 2:
		k := rapid.IntRange(1, 14).Draw(t, "pow")
		c.N = int64(1)<<uint(k) + int64(rapid.IntRange(-1, 1).Draw(t, "d"))
		if c.N > max {
			c.N = max
		}
	default:
		c.N = rapid.Int64Range(0, max).Draw(t, "n")
	}
	nm := rapid.IntRange(1, 6).Draw(t, "nm")
	for i := 0; i < nm; i++ {
		c.Ms = append(c.Ms, rapid.Int64Range(0, c.N).Draw(t, "m"))
	}
	c.Ms = append(c.Ms, c.N)
	return c
}

// built holds the store built by the code under test for one seed; it only grows.
type built struct {
	hashes []tlog.Hash
	n      int64
	fail   *pbt.Failure
}

var (
	builtMu sync.Mutex
	builts  = map[int64]*built{}
)

func sliceReader(s []tlog.Hash) tlog.HashReader {
	return tlog.HashReaderFunc(func(indexes []int64) ([]tlog.Hash, error) {
		out := make([]tlog.Hash, len(indexes))
		for i, x := range indexes {
			if x < 0 || x >= int64(len(s)) {
				return nil, fmt.Errorf("store: index %d not written yet (len %d)", x, len(s))
			}
			out[i] = s[x]
		}
		return out, nil
	})
}

// extend appends records n..upto-1 through the code under test, checking each step.
func extend(seed, upto int64) *built {
	builtMu.Lock()
	defer builtMu.Unlock()
	b := builts[seed]
	if b == nil {
		b = &built{}
		builts[seed] = b
	}
	tree := tlogutil.Tree(seed, upto)
	for b.fail == nil && b.n < upto {
		i := b.n
		if got := tlog.StoredHashIndex(0, i); got != int64(len(b.hashes)) {
			b.fail = pbt.Failf("dense", "record %d: StoredHashIndex(0,%d)=%d but %d hashes stored so far", i, i, got, len(b.hashes))
			break
		}
		dataArg := append([]byte(nil), tree.Leaves[i]...)
		hs, err := tlog.StoredHashes(i, dataArg, sliceReader(b.hashes))
		if string(dataArg) != string(tree.Leaves[i]) {
			b.fail = pbt.Failf("storedhashes-writes-input", "StoredHashes(%d) changed the record data it was given", i)
			break
		}
		if err != nil {
			b.fail = pbt.Failf("storedhashes", "StoredHashes(%d): %v", i, err)
			break
		}
		coords := merkleref.LeafCoords(i)
		if len(hs) != len(coords) {
			b.fail = pbt.Failf("count-per-record", "StoredHashes(%d) returned %d hashes, layout says %d", i, len(hs), len(coords))
			break
		}
		for j, c := range coords {
			pos := int64(len(b.hashes)) + int64(j)
			if merkleref.Hash(hs[j]) != tree.At(c) {
				b.fail = pbt.Failf("subtree-hash", "record %d: stored hash %d (level %d offset %d) is not the RFC 6962 hash of its subtree", i, pos, c.Level, c.Offset)
			}
			if l, o := tlog.SplitStoredHashIndex(pos); l != c.Level || o != c.Offset {
				b.fail = pbt.Failf("split", "SplitStoredHashIndex(%d)=(%d,%d), layout says (%d,%d)", pos, l, o, c.Level, c.Offset)
			}
			if p := tlog.StoredHashIndex(c.Level, c.Offset); p != pos {
				b.fail = pbt.Failf("index", "StoredHashIndex(%d,%d)=%d, layout position %d", c.Level, c.Offset, p, pos)
			}
		}
		b.hashes = append(b.hashes, hs...)
		b.n++
		if cnt := tlog.StoredHashCount(b.n); cnt != int64(len(b.hashes)) {
			b.fail = pbt.Failf("count", "StoredHashCount(%d)=%d but the dense store has %d hashes", b.n, cnt, len(b.hashes))
		}
		if viaRH, err := tlog.StoredHashesForRecordHash(i, tlog.RecordHash(tree.Leaves[i]), sliceReader(b.hashes)); err != nil || fmt.Sprint(viaRH) != fmt.Sprint(hs) {
			b.fail = pbt.Failf("forrecordhash", "StoredHashesForRecordHash(%d) differs from StoredHashes: %v", i, err)
		}
	}
	return b
}

func checkStore(c storeCase) pbt.Result {
	r := pbt.Result{NonTrivial: c.N >= 3}
	if c.N < 0 || c.N > 200000 || c.Seed < 0 {
		r.Skip = true
		return r
	}
	b := extend(c.Seed, c.N)
	if b.fail != nil {
		r.Fail = b.fail
		return r
	}
	tree := tlogutil.Tree(c.Seed, c.N)
	if tlog.StoredHashCount(0) != 0 {
		r.Fail = pbt.Failf("count0", "StoredHashCount(0)=%d", tlog.StoredHashCount(0))
		return r
	}
	// a second store with the same content, read the way an in-memory store is read (views for consecutive
	// positions), shared by all the tree hashes of the case: it must come out as it went in
	view := append([]tlog.Hash(nil), b.hashes[:tlog.StoredHashCount(c.N)]...)
	for _, m := range c.Ms {
		if m < 0 || m > c.N {
			continue
		}
		// the reader only offers the hashes of the first m records: TreeHash(m) must not need more
		prefix := b.hashes[:tlog.StoredHashCount(m)]
		th, err := tlog.TreeHash(m, sliceReader(prefix))
		if err != nil || merkleref.Hash(th) != tree.MTH(0, m) {
			r.Fail = pbt.Failf("treehash", "TreeHash(%d) of the %d-record log = %v (%v), RFC 6962 MTH = %x", m, c.N, th, err, tree.MTH(0, m))
			return r
		}
		th, err = tlog.TreeHash(m, tlogutil.ViewReader(view))
		if err != nil || merkleref.Hash(th) != tree.MTH(0, m) {
			r.Fail = pbt.Failf("treehash-view", "TreeHash(%d) of the %d-record log, read through views of an in-memory store after the earlier tree hashes of this case, = %v (%v), RFC 6962 MTH = %x", m, c.N, th, err, tree.MTH(0, m))
			return r
		}
		for i := range view {
			if view[i] != b.hashes[i] {
				r.Fail = pbt.Failf("store-modified", "after TreeHash(%d) the stored hash at position %d of the in-memory store it read from is no longer the hash that was stored there", m, i)
				return r
			}
		}
		// reference store and code-built store agree on that prefix
		refStore := tlogutil.Store(c.Seed, m)
		if len(refStore) != len(prefix) {
			r.Fail = pbt.Failf("count-ref", "store for %d records: code %d hashes, enumerator %d", m, len(prefix), len(refStore))
			return r
		}
	}
	r.Classes = []string{fmt.Sprintf("n~2^%d", bits.Len64(uint64(c.N)))}
	return r
}

// ---- coordinates

type coordCase struct {
	Level  int
	Offset int64
	Index  int64
}

func genCoord(t *rapid.T) coordCase {
	level := rapid.IntRange(0, 40).Draw(t, "level")
	if rapid.Bool().Draw(t, "lowlevel") {
		level = rapid.IntRange(0, 4).Draw(t, "level2")
	}
	maxBits := 60 - level
	b := rapid.IntRange(0, maxBits).Draw(t, "bits")
	var off int64
	if b > 0 {
		off = rapid.Int64Range(int64(1)<<uint(b-1), int64(1)<<uint(b)-1).Draw(t, "off")
		switch rapid.IntRange(0, 3).Draw(t, "edge") {
		case 0:
			off = int64(1)<<uint(b) - 1
		case 1:
			off = int64(1) << uint(b-1)
		}
	}
	ib := rapid.IntRange(0, 61).Draw(t, "ibits")
	var idx int64
	if ib > 0 {
		idx = rapid.Int64Range(0, int64(1)<<uint(ib)-1).Draw(t, "idx")
	}
	return coordCase{level, off, idx}
}

// position is the closed form of the dense layout: the subtree (level, off) is
// completed by leaf i = (off+1)*2^level - 1; before leaf i, 2i - popcount(i) hashes
// were stored; the subtree's hash is the level'th hash stored for that leaf.
func position(level int, off int64) int64 {
	i := (off+1)<<uint(level) - 1
	return 2*i - int64(bits.OnesCount64(uint64(i))) + int64(level)
}

var closedFormChecked sync.Once
var closedFormErr string

func checkCoord(c coordCase) pbt.Result {
	r := pbt.Result{NonTrivial: c.Level >= 1}
	if c.Level < 0 || c.Level > 40 || c.Offset < 0 || c.Level+bits.Len64(uint64(c.Offset)) > 60 || c.Index < 0 || c.Index >= 1<<61 {
		r.Skip = true
		return r
	}
	closedFormChecked.Do(func() {
		for p, co := range merkleref.Layout(5000) {
			if position(co.Level, co.Offset) != int64(p) {
				closedFormErr = fmt.Sprintf("closed form disagrees with the enumerator at position %d", p)
			}
		}
	})
	if closedFormErr != "" {
		panic(closedFormErr)
	}
	want := position(c.Level, c.Offset)
	got := tlog.StoredHashIndex(c.Level, c.Offset)
	if got != want {
		r.Fail = pbt.Failf("index", "StoredHashIndex(%d,%d)=%d, dense layout position is %d", c.Level, c.Offset, got, want)
		return r
	}
	if l, o := tlog.SplitStoredHashIndex(want); l != c.Level || o != c.Offset {
		r.Fail = pbt.Failf("split-inverse", "SplitStoredHashIndex(%d)=(%d,%d), want (%d,%d)", want, l, o, c.Level, c.Offset)
		return r
	}
	// arbitrary index: split then index is the identity, and the split is the unique coordinate
	l, o := tlog.SplitStoredHashIndex(c.Index)
	if l < 0 || o < 0 || position(l, o) != c.Index {
		r.Fail = pbt.Failf("split-of-index", "SplitStoredHashIndex(%d)=(%d,%d) whose layout position is %d", c.Index, l, o, position(l, o))
		return r
	}
	if back := tlog.StoredHashIndex(l, o); back != c.Index {
		r.Fail = pbt.Failf("index-of-split", "StoredHashIndex(SplitStoredHashIndex(%d))=%d", c.Index, back)
		return r
	}
	// count: after n records the store has 2n - popcount(n) hashes
	n := c.Offset
	if cnt := tlog.StoredHashCount(n); cnt != 2*n-int64(bits.OnesCount64(uint64(n))) {
		r.Fail = pbt.Failf("count", "StoredHashCount(%d)=%d, dense layout has %d", n, cnt, 2*n-int64(bits.OnesCount64(uint64(n))))
	}
	return r
}

// ---- text encodings

type treeText struct {
	N    int64
	Hash []byte // 32 bytes
	Mut  int    // 0 = none
	Pos  int
	Ins  string
}

func genTreeText(t *rapid.T) treeText {
	c := treeText{Hash: rapid.SliceOfN(rapid.Byte(), 32, 32).Draw(t, "hash")}
	switch rapid.IntRange(0, 4).Draw(t, "nk") {
	case 0:
		c.N = []int64{0, 1, 9, 10, 1<<63 - 1, 1 << 62, 4294967296}[rapid.IntRange(0, 6).Draw(t, "edge")]
	default:
		b := rapid.IntRange(0, 62).Draw(t, "bits")
		c.N = rapid.Int64Range(0, int64(1)<<uint(b)).Draw(t, "n")
	}
	c.Mut = rapid.IntRange(0, 3).Draw(t, "mut")
	c.Pos = rapid.IntRange(0, 80).Draw(t, "pos")
	c.Ins = []string{"\n", "0", "-", "+", " ", "=", "A", "\r", "x", "go.sum database tree\n", "\x00", "é"}[rapid.IntRange(0, 11).Draw(t, "ins")]
	return c
}

func checkTreeText(c treeText) pbt.Result {
	r := pbt.Result{NonTrivial: true}
	if len(c.Hash) != 32 || c.N < 0 {
		r.Skip = true
		return r
	}
	var h tlog.Hash
	copy(h[:], c.Hash)
	tree := tlog.Tree{N: c.N, Hash: h}
	text := tlog.FormatTree(tree)
	if want := fmt.Sprintf("go.sum database tree\n%d\n%s\n", c.N, h.String()); string(text) != want {
		r.Fail = pbt.Failf("formattree", "FormatTree = %q, documented form %q", text, want)
		return r
	}
	// the text stays what it is while other heads are formatted
	want := string(text)
	tlog.FormatTree(tlog.Tree{N: c.N/2 + 7})
	tlog.FormatTree(tlog.Tree{N: 1<<62 + c.N/2, Hash: tlog.Hash{1, 2, 3}})
	if string(text) != want {
		r.Fail = pbt.Failf("formatted-tree-changed-later", "the text FormatTree returned read %q and reads %q after two later calls", want, text)
		return r
	}
	back, err := tlog.ParseTree(text)
	if err != nil || back != tree {
		r.Fail = pbt.Failf("tree-roundtrip", "ParseTree(FormatTree(%v)) = %v, %v", tree, back, err)
		return r
	}
	// extra lines are ignored (forward compatibility is documented)
	back, err = tlog.ParseTree(append(append([]byte(nil), text...), "future line\n"...))
	if err != nil || back != tree {
		r.Fail = pbt.Failf("tree-extra-lines", "ParseTree with an extra line = %v, %v", back, err)
		return r
	}
	// hash encodings
	s := h.String()
	if ph, err := tlog.ParseHash(s); err != nil || ph != h {
		r.Fail = pbt.Failf("hash-roundtrip", "ParseHash(%q) = %v, %v", s, ph, err)
		return r
	}
	js, err := json.Marshal(h)
	var jh tlog.Hash
	if err != nil || json.Unmarshal(js, &jh) != nil || jh != h {
		r.Fail = pbt.Failf("hash-json", "JSON round trip of %v failed: %s %v", h, js, err)
		return r
	}
	if c.Mut != 0 {
		m := append([]byte(nil), text...)
		pos := c.Pos % (len(m) + 1)
		switch c.Mut {
		case 1:
			m = append(m[:pos:pos], append([]byte(c.Ins), m[pos:]...)...)
		case 2:
			if pos < len(m) {
				m = append(m[:pos:pos], m[pos+1:]...)
			}
		case 3:
			if pos < len(m) {
				m[pos] = c.Ins[0]
			}
		}
		r.Classes = append(r.Classes, "mutated")
		pt, err := tlog.ParseTree(m)
		if err == nil {
			// whatever is accepted must be a tree head: non-negative size, and formatting it again must parse to the same value
			again, err2 := tlog.ParseTree(tlog.FormatTree(pt))
			if pt.N < 0 || err2 != nil || again != pt {
				r.Fail = pbt.Failf("tree-parse-unstable", "ParseTree(%q) = %v but it does not survive FormatTree/ParseTree (%v, %v)", m, pt, again, err2)
				return r
			}
			if !bytes.HasPrefix(m, []byte("go.sum database tree\n")) {
				r.Fail = pbt.Failf("tree-parse-header", "ParseTree accepted %q without the header line", m)
				return r
			}
			r.Classes = append(r.Classes, "mutated-accepted")
		}
		// hash text mutations must never yield a different length or panic
		ms := string(m)
		if i := strings.LastIndex(strings.TrimSuffix(ms, "\n"), "\n"); i >= 0 {
			line := strings.TrimSuffix(ms[i+1:], "\n")
			if ph, err := tlog.ParseHash(line); err == nil {
				if again, err := tlog.ParseHash(ph.String()); err != nil || again != ph {
					r.Fail = pbt.Failf("hash-parse-unstable", "ParseHash(%q) unstable", line)
				}
			}
			var uh tlog.Hash
			if err := uh.UnmarshalJSON([]byte(`"` + line + `"`)); err == nil {
				if ph, err2 := tlog.ParseHash(line); err2 != nil || ph != uh {
					r.Fail = pbt.Failf("hash-json-vs-text", "UnmarshalJSON accepts %q as %v but ParseHash says %v, %v", line, uh, ph, err2)
				}
			}
		}
	}
	return r
}

type recordText struct {
	ID      int64
	Text    string
	Rest    string
	BigText int // >0: the text is followed by copies of a valid line up to about this many bytes
	BigRest int // >0: the rest is followed by further well-formed records up to about this many bytes
	Next    []string // texts of further records formatted afterwards (ids follow on), while the first message is still held
}

const padLine = "example.com/padding v1.0.0 h1:AAAAAAAAAAAAAAAAAAAAAAAAAAAAAAAAAAAAAAAAAAA=\n"

var bigSizes = []int{4095, 4096, 65535, 65536, 65537, 999000, 1000001, 3000000}

// expand materialises the padded text and rest of a case.
func (c recordText) expand() (string, string) {
	text, rest := c.Text, c.Rest
	if c.BigText > 0 && c.BigText <= 4<<20 {
		text += strings.Repeat(padLine, c.BigText/len(padLine)+1)
	}
	if c.BigRest > 0 && c.BigRest <= 4<<20 {
		rest += strings.Repeat("12345\n"+padLine+"\n", c.BigRest/(len(padLine)+7)+1)
	}
	return text, rest
}

var recordLines = []string{"replacement \ufffd char", "\ufffd", "bom \ufeff", "sep \u2028 \u2029", "nel \u0085", "del \x7f", "max \U0010ffff", "example.com/m v1.0.0 h1:abc=", "example.com/m v1.0.0/go.mod h1:def=", "a", " ", "é日本", "x\ty", "x\x00y", "\xff", "x\ry", "", "0", "-", "go.sum database tree", " ", "\x7f", "\x1f"}

func genRecordText(t *rapid.T) recordText {
	c := recordText{}
	switch rapid.IntRange(0, 3).Draw(t, "idk") {
	case 0:
		c.ID = []int64{0, 1, 1<<63 - 1, 10, 99}[rapid.IntRange(0, 4).Draw(t, "edge")]
	default:
		c.ID = rapid.Int64Range(0, 1<<40).Draw(t, "id")
	}
	n := rapid.IntRange(0, 4).Draw(t, "nlines")
	var sb strings.Builder
	for i := 0; i < n; i++ {
		sb.WriteString(recordLines[rapid.IntRange(0, len(recordLines)-1).Draw(t, "line")])
		if rapid.IntRange(0, 9).Draw(t, "nl") != 0 {
			sb.WriteString("\n")
		}
	}
	c.Text = sb.String()
	if rapid.IntRange(0, 9).Draw(t, "arb") == 0 {
		c.Text = rapid.String().Draw(t, "arbtext")
	}
	c.Rest = []string{"", "7\nnext record\n\n", "\n", "\n\n", "go.sum database tree\n5\nAAAA\n", "x"}[rapid.IntRange(0, 5).Draw(t, "rest")]
	// a server formats many records in a row and keeps the messages (a data tile is their concatenation)
	for i := rapid.IntRange(0, 3).Draw(t, "nnext"); i > 0; i-- {
		c.Next = append(c.Next, recordLines[rapid.IntRange(0, 9).Draw(t, "nextline")]+"\n"+strings.Repeat("y", rapid.IntRange(0, 40).Draw(t, "nextpad"))+"\n")
	}
	// long records and long streams of records (size thresholds of scanners and parsers)
	if gen.Uniform(t, 400, "bigtext") == 0 {
		c.BigText = bigSizes[rapid.IntRange(0, len(bigSizes)-1).Draw(t, "bigtextn")]
	}
	if gen.Uniform(t, 400, "bigrest") == 0 {
		c.BigRest = bigSizes[rapid.IntRange(0, len(bigSizes)-1).Draw(t, "bigrestn")]
	}
	return c
}

// docValid: valid UTF-8, no control characters other than newline, ends in newline, no blank line.
// The second result reports the one shape the code and the doc comment disagree on (leading newline).
func docValid(text string) (valid bool, leadingNewline bool) {
	if !utf8.ValidString(text) || !strings.HasSuffix(text, "\n") {
		return false, false
	}
	for _, r := range text {
		if r < 0x20 && r != '\n' {
			return false, false
		}
	}
	if strings.Contains(text, "\n\n") {
		return false, false
	}
	if strings.HasPrefix(text, "\n") {
		return false, true
	}
	return true, false
}

func checkRecordText(c recordText) pbt.Result {
	c.Text, c.Rest = c.expand()
	valid, leading := docValid(c.Text)
	r := pbt.Result{NonTrivial: valid || len(c.Text) > 0, Classes: []string{fmt.Sprintf("valid=%v leadingNL=%v", valid, leading)}}
	if c.ID < 0 {
		r.Skip = true
		return r
	}
	textArg := []byte(c.Text)
	msg, err := tlog.FormatRecord(c.ID, textArg)
	if string(textArg) != c.Text {
		r.Fail = pbt.Failf("formatrecord-writes-input", "FormatRecord changed the text it was given")
		return r
	}
	if leading {
		if err != nil {
			return r // unasserted shape, rejected: fine
		}
	} else if (err == nil) != valid {
		r.Fail = pbt.Failf("formatrecord-accept", "FormatRecord(%d, text of %d bytes %.80q) err=%v, documented validity %v", c.ID, len(c.Text), c.Text, err, valid)
		return r
	}
	if err != nil {
		return r
	}
	if want := fmt.Sprintf("%d\n%s\n", c.ID, c.Text); string(msg) != want {
		r.Fail = pbt.Failf("formatrecord-form", "FormatRecord = %.80q (%d bytes), documented form %.80q (%d bytes)", msg, len(msg), want, len(want))
		return r
	}
	whole := append(append([]byte(nil), msg...), c.Rest...)
	id, text, rest, err := tlog.ParseRecord(whole)
	if string(whole) != string(msg)+c.Rest {
		r.Fail = pbt.Failf("parserecord-writes-input", "ParseRecord changed the bytes it was given")
		return r
	}
	if err != nil || id != c.ID || string(text) != c.Text || string(rest) != c.Rest {
		r.Fail = pbt.Failf("record-roundtrip", "ParseRecord(FormatRecord(%d, text of %d bytes %.60q...) + rest of %d bytes) = (%d, text of %d bytes, rest of %d bytes, %v)", c.ID, len(c.Text), c.Text, len(c.Rest), id, len(text), len(rest), err)
		return r
	}
	// a formatted record stays what it is while further records and tree heads are formatted and parsed
	if len(c.Next) > 0 && len(c.Next) <= 8 {
		r.Classes = append(r.Classes, "message held across later calls")
		held := [][]byte{msg}
		wants := []string{fmt.Sprintf("%d\n%s\n", c.ID, c.Text)}
		for i, nt := range c.Next {
			nid := (c.ID + int64(i) + 1) & (1<<62 - 1)
			m2, err := tlog.FormatRecord(nid, []byte(nt))
			if v, _ := docValid(nt); err != nil || !v {
				continue
			}
			tlog.FormatTree(tlog.Tree{N: nid})
			tlog.ParseRecord(m2)
			held = append(held, m2)
			wants = append(wants, fmt.Sprintf("%d\n%s\n", nid, nt))
		}
		for i := range held {
			if string(held[i]) != wants[i] {
				r.Fail = pbt.Failf("formatted-record-changed-later", "the message FormatRecord returned for record %d of this run read %.80q when returned and reads %.80q after %d later calls", i, wants[i], held[i], len(held)-1-i)
				return r
			}
		}
	}
	return r
}

var subs = []pbt.Sub{
	pbt.New("store", 4000, 8000, genStore, checkStore),
	pbt.New("coords", 40000, 150000, genCoord, checkCoord),
	pbt.New("treetext", 30000, 100000, genTreeText, checkTreeText),
	pbt.New("recordtext", 30000, 100000, genRecordText, checkRecordText),
	pbt.New("hugestore", 10000, 40000, genHugeStore, checkHugeStore),
}

func TestGen(t *testing.T)    { pbt.RunAll(t, subs) }
func TestReplay(t *testing.T) { pbt.Replay(t, subs) }

// FuzzParseRecord: whatever ParseRecord accepts must survive FormatRecord/ParseRecord unchanged.
func FuzzParseRecord(f *testing.F) {
	for _, s := range []string{"5\nexample.com/m v1.0.0 h1:abc=\n\nrest", "0\n\n\n", "12\na\nb\n\n7\nnext\n\n", "-1\nx\n\n", "+3\nx\n\n"} {
		f.Add([]byte(s))
	}
	f.Fuzz(func(t *testing.T, msg []byte) {
		id, text, rest, err := tlog.ParseRecord(msg)
		c := recordText{ID: id, Text: string(text), Rest: string(rest)}
		res := pbt.Result{NonTrivial: err == nil}
		if err == nil {
			if valid, leading := docValid(string(text)); !valid && !leading {
				res.Fail = pbt.Failf("parserecord-accepts-invalid-text", "ParseRecord(%q) returned text %q, which is not valid record text", msg, text)
			} else if !bytes.HasSuffix(msg, rest) {
				res.Fail = pbt.Failf("parserecord-rest", "ParseRecord(%q) rest %q is not a suffix of the input", msg, rest)
			} else if id >= 0 {
				if r2 := checkRecordText(c); r2.Fail != nil {
					res.Fail = r2.Fail
				}
			}
		}
		pbt.Count("fuzz-parserecord", c, res)
		if res.Fail != nil {
			pbt.ReportFuzz(t, "recordtext", c, res.Fail)
		}
	})
}
