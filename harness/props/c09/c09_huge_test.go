package c09

// Appending record n to a very long log. A log of identical records has subtree hashes that depend
// only on the subtree size (merkleref.Uniform), so the hashes a correct implementation must store
// for record n, and the tree hash of the first m records, are known for n, m up to 2^60 without
// building the log. This reaches records that complete many subtrees at once (n+1 divisible by a
// high power of two) and trees with any number of right-edge subtrees.

import (
	"fmt"
	"math/bits"

	"golang.org/x/mod/sumdb/tlog"
	"pgregory.net/rapid"

	"verif/harness/internal/gen"
	"verif/harness/internal/pbt"
	"verif/harness/internal/ref/merkleref"
)

type hugeStoreCase struct {
	N int64 // record appended (0-based): the log has N records before
	M int64 // tree size whose hash is asked for
}

func genHugeN(t *rapid.T, label string) int64 {
	k := rapid.IntRange(1, 59).Draw(t, label+"log2")
	switch rapid.IntRange(0, 4).Draw(t, label+"shape") {
	case 0: // completes k subtrees
		return int64(1)<<uint(k) - 1
	case 1: // completes many, below a higher bit
		hi := rapid.IntRange(k, 59).Draw(t, label+"hi")
		return int64(1)<<uint(hi) | (int64(1)<<uint(k) - 1)
	case 2:
		v := int64(1)<<uint(k) + int64(rapid.IntRange(-3, 3).Draw(t, label+"d"))
		if v < 0 {
			v = 0
		}
		return v
	case 3: // odd multiples of a power of two, minus one
		return (2*rapid.Int64Range(0, 1<<20).Draw(t, label+"odd")+1)<<uint(k%40) - 1
	}
	return rapid.Int64Range(0, int64(1)<<uint(k)).Draw(t, label+"n")
}

func genHugeStore(t *rapid.T) hugeStoreCase {
	c := hugeStoreCase{N: genHugeN(t, "n"), M: genHugeN(t, "m") + 1}
	if gen.Chance(t, 30, "mjustafter") {
		c.M = c.N + 1
	}
	return c
}

type uniformHashReader struct {
	u     *merkleref.Uniform
	limit int64 // number of stored hashes that exist
	bad   string
}

func (r *uniformHashReader) ReadHashes(indexes []int64) ([]tlog.Hash, error) {
	out := make([]tlog.Hash, len(indexes))
	for i, x := range indexes {
		if x < 0 || x >= r.limit {
			if r.bad == "" {
				r.bad = fmt.Sprintf("stored hash %d requested, only %d exist", x, r.limit)
			}
			return nil, fmt.Errorf("no such stored hash %d", x)
		}
		out[i] = tlog.Hash(r.u.StoredAt(x))
	}
	return out, nil
}

func checkHugeStore(c hugeStoreCase) pbt.Result {
	r := pbt.Result{}
	if c.N < 0 || c.N >= 1<<60 || c.M < 1 || c.M > 1<<60 {
		r.Skip = true
		return r
	}
	u := merkleref.NewUniform([]byte("the same record everywhere\n"))
	completes := bits.TrailingZeros64(^uint64(c.N)) // subtrees completed by record N besides the leaf
	r.NonTrivial = c.N >= 3
	r.Classes = []string{fmt.Sprintf("record completes %d..%d subtrees", completes/8*8, completes/8*8+7)}
	// hashes stored when record N is appended to a log that holds N records
	rd := &uniformHashReader{u: u, limit: tlog.StoredHashCount(c.N)}
	leaf := tlog.Hash(u.MTHSize(1))
	got, err := tlog.StoredHashesForRecordHash(c.N, leaf, rd)
	if err != nil {
		r.Fail = pbt.Failf("stored-hashes-error-huge", "StoredHashesForRecordHash(%d) failed on a well-formed log: %v (%s)", c.N, err, rd.bad)
		return r
	}
	if len(got) != completes+1 {
		r.Fail = pbt.Failf("stored-hashes-count-huge", "appending record %d stores %d hashes, the layout has %d (the leaf and %d completed subtrees)", c.N, len(got), completes+1, completes)
		return r
	}
	for l, h := range got {
		if merkleref.Hash(h) != u.MTHSize(int64(1)<<uint(l)) {
			r.Fail = pbt.Failf("subtree-hash-huge", "appending record %d: the hash stored for the completed subtree of level %d is not its RFC 6962 hash", c.N, l)
			return r
		}
	}
	if want := tlog.StoredHashCount(c.N) + int64(len(got)); tlog.StoredHashCount(c.N+1) != want {
		r.Fail = pbt.Failf("stored-count-huge", "StoredHashCount(%d) = %d, but %d hashes exist after record %d is appended", c.N+1, tlog.StoredHashCount(c.N+1), want, c.N)
		return r
	}
	// tree hash of the first M records
	rd2 := &uniformHashReader{u: u, limit: tlog.StoredHashCount(c.M)}
	th, err := tlog.TreeHash(c.M, rd2)
	if err != nil || merkleref.Hash(th) != u.MTHSize(c.M) {
		r.Fail = pbt.Failf("tree-hash-huge", "TreeHash(%d) err=%v, and the result is not the RFC 6962 tree hash (%s)", c.M, err, rd2.bad)
		return r
	}
	return r
}
