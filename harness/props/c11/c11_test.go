// Package c11: path and version escaping is a lossless, case-collision-free encoding.
package c11

import (
	"fmt"
	"strings"
	"testing"

	"golang.org/x/mod/module"
	"pgregory.net/rapid"

	"verif/harness/internal/gen"
	"verif/harness/internal/pbt"
	ref "verif/harness/internal/ref/pathref"
)

func init() {
	pbt.Describe("inputs: valid module paths and version strings rich in upper-case letters, case variants and '!'-inserted variants of them, invalid paths from the C06 grammar/mutators (incl. Unicode letters, which are valid file-name characters but cannot be escaped), and escaped-side strings over [a-z0-9./!~_-] with '!' before anything. Oracle: independent statement of the !-escaping + pathref validity: escape succeeds iff valid, output has no A-Z, unescape(escape(x))==x, different valid inputs never escape to EqualFold-equal strings, unescape succeeds only on the exact image of a valid input. Non-trivial: input contains an upper-case letter or '!'. Distinct by JSON rendering.",
		"pathref model of path validity (see C06)", "strings.EqualFold is the case-insensitive comparison meant by 'equal ignoring case'")
}

func TestMain(m *testing.M) { pbt.Main(m) }

type strCase struct {
	S     string
	Kind  string // "path" or "version"
	First bool   `json:",omitempty"` // the opposite conversion is asked about the counterpart string first
}

// rawEscape and rawUnescape do the letter substitution only, without any validity rule: the counterpart of
// a string on the other side of the conversion, whether or not either of them is valid.
func rawEscape(s string) string {
	var b strings.Builder
	for i := 0; i < len(s); i++ {
		if c := s[i]; 'A' <= c && c <= 'Z' {
			b.WriteByte('!')
			b.WriteByte(c + 'a' - 'A')
		} else {
			b.WriteByte(c)
		}
	}
	return b.String()
}

func rawUnescape(s string) string {
	var b strings.Builder
	for i := 0; i < len(s); i++ {
		if s[i] == '!' && i+1 < len(s) && 'a' <= s[i+1] && s[i+1] <= 'z' {
			b.WriteByte(s[i+1] - 'a' + 'A')
			i++
		} else {
			b.WriteByte(s[i])
		}
	}
	return b.String()
}

func hasUpperOrBang(s string) bool {
	return strings.ContainsAny(s, "ABCDEFGHIJKLMNOPQRSTUVWXYZ!")
}

func genVersionish(t *rapid.T) string {
	k := rapid.IntRange(0, 9).Draw(t, "vk")
	switch {
	case k < 4:
		s, _ := gen.VersionString(t)
		return s
	case k < 6:
		p := gen.Parts(t, false)
		p.Pre = append(p.Pre, []string{"RC1", "Beta", "ALPHA", "X"}[rapid.IntRange(0, 3).Draw(t, "up")])
		if len(p.Nums) != 3 {
			p.Nums = []string{"1", "2", "3"}
		}
		return p.String()
	case k < 9:
		return gen.PathElem(t, rapid.IntRange(0, 1).Draw(t, "h"), "ve")
	}
	return []string{"master", "HEAD", "Release-1.0", "v1.0.0+Incompatible", "a!b", "!", "v1!", "é", "CON", "v1.0.0-RC~1"}[rapid.IntRange(0, 9).Draw(t, "w")]
}

func genStr(t *rapid.T) strCase {
	if rapid.Bool().Draw(t, "isPath") {
		k := rapid.IntRange(0, 9).Draw(t, "pk")
		var s string
		switch {
		case k < 5:
			s = gen.ValidModulePath(t)
		case k < 8:
			s = gen.PathLike(t)
		default:
			s = gen.MutateString(t, gen.ValidModulePath(t), 1, []string{"!", "A", "Z", "a", "é", "K", "/", "!a", "!!", "\xff", "+"})
		}
		return strCase{s, "path", gen.Chance(t, 30, "first")}
	}
	return strCase{genVersionish(t), "version", gen.Chance(t, 30, "first")}
}

func escapeFns(kind string) (esc, unesc func(string) (string, error), valid func(string) bool) {
	if kind == "path" {
		return module.EscapePath, module.UnescapePath, func(s string) bool { return ref.Valid(s, ref.Module) }
	}
	return module.EscapeVersion, module.UnescapeVersion, ref.VersionEscapable
}

func unspecified(kind, s string) bool {
	if kind != "path" {
		return false
	}
	_, _, _, u := ref.Split(s)
	return u
}

func checkEscape(c strCase) pbt.Result {
	esc, unesc, valid := escapeFns(c.Kind)
	r := pbt.Result{NonTrivial: hasUpperOrBang(c.S)}
	if unspecified(c.Kind, c.S) {
		r.Skip = true
		return r
	}
	if c.First {
		// nothing learnt while unescaping the counterpart (which fails whenever c.S is invalid) may show here
		unesc(rawEscape(c.S))
		unesc(c.S)
	}
	e, err := esc(c.S)
	want := valid(c.S)
	r.Classes = []string{fmt.Sprintf("%s valid=%v", c.Kind, want)}
	if c.First {
		r.Classes = append(r.Classes, "counterpart unescaped first")
	}
	if (err == nil) != want {
		r.Fail = pbt.Failf("escape-iff-valid", "Escape%s(%q): err=%v, valid=%v", c.Kind, c.S, err, want)
		return r
	}
	if err != nil {
		if e != "" {
			r.Fail = pbt.Failf("escape-error-value", "Escape%s(%q) failed but returned %q", c.Kind, c.S, e)
		}
		return r
	}
	if strings.ContainsAny(e, "ABCDEFGHIJKLMNOPQRSTUVWXYZ") {
		r.Fail = pbt.Failf("escape-upper", "Escape%s(%q)=%q contains upper case", c.Kind, c.S, e)
		return r
	}
	if m, ok := ref.Escape(c.S); !ok || m != e {
		r.Fail = pbt.Failf("escape-form", "Escape%s(%q)=%q, documented form %q", c.Kind, c.S, e, m)
		return r
	}
	back, err := unesc(e)
	if err != nil || back != c.S {
		r.Fail = pbt.Failf("roundtrip", "Unescape%s(Escape(%q)=%q) = %q, %v", c.Kind, c.S, e, back, err)
	}
	return r
}

type pairCase struct {
	X, Y string
	Kind string
}

func caseVariant(t *rapid.T, s string) string {
	b := []byte(s)
	n := rapid.IntRange(1, 3).Draw(t, "flips")
	for ; n > 0 && len(b) > 0; n-- {
		// choose among letters if any
		var idx []int
		for i, c := range b {
			if c >= 'a' && c <= 'z' || c >= 'A' && c <= 'Z' {
				idx = append(idx, i)
			}
		}
		if len(idx) == 0 {
			break
		}
		i := idx[rapid.IntRange(0, len(idx)-1).Draw(t, "fi")]
		b[i] ^= 0x20
	}
	return string(b)
}

func genPair(t *rapid.T) pairCase {
	kind := "path"
	var x string
	if rapid.IntRange(0, 2).Draw(t, "isV") == 0 {
		kind = "version"
		x = genVersionish(t)
	} else {
		x = gen.ValidModulePath(t)
	}
	var y string
	switch rapid.IntRange(0, 4).Draw(t, "how") {
	case 0, 1, 2:
		y = caseVariant(t, x)
	case 3:
		// the escaped form of x read as a plain string, and vice versa
		if e, ok := ref.Escape(x); ok {
			y = e
		} else {
			y = caseVariant(t, x)
		}
	case 4:
		y = gen.MutateString(t, x, 1, []string{"!", "A", "a", "k", "K", "s", "S"})
	}
	return pairCase{x, y, kind}
}

func checkPair(c pairCase) pbt.Result {
	esc, _, valid := escapeFns(c.Kind)
	r := pbt.Result{}
	if unspecified(c.Kind, c.X) || unspecified(c.Kind, c.Y) {
		r.Skip = true
		return r
	}
	for _, s := range []string{c.X, c.Y} {
		if res := checkEscape(strCase{S: s, Kind: c.Kind}); res.Fail != nil {
			return res
		}
	}
	if !valid(c.X) || !valid(c.Y) || c.X == c.Y {
		return r
	}
	r.NonTrivial = hasUpperOrBang(c.X + c.Y)
	ex, _ := esc(c.X)
	ey, _ := esc(c.Y)
	r.Classes = []string{fmt.Sprintf("%s equalfold-inputs=%v", c.Kind, strings.EqualFold(c.X, c.Y))}
	if strings.EqualFold(ex, ey) {
		r.Fail = pbt.Failf("case-collision", "Escape%s(%q)=%q and Escape%s(%q)=%q are equal ignoring case", c.Kind, c.X, ex, c.Kind, c.Y, ey)
	}
	return r
}

var escAlphabet = []string{"a", "b", "z", "k", "s", "0", "9", ".", "/", "!", "!a", "!z", "!!", "!A", "A", "Z", "~", "_", "-", "!0", "!/", "!.", "é", "!é", "\xff", "v2", ".v2", "com"}

func genEscaped(t *rapid.T) strCase {
	kind := "path"
	if rapid.IntRange(0, 2).Draw(t, "isV") == 0 {
		kind = "version"
	}
	var s string
	switch rapid.IntRange(0, 3).Draw(t, "how") {
	case 0:
		// start from a genuine escape, then maybe perturb
		var x string
		if kind == "path" {
			x = gen.ValidModulePath(t)
		} else {
			x = genVersionish(t)
		}
		if e, ok := ref.Escape(x); ok {
			s = e
		} else {
			s = x
		}
		if rapid.Bool().Draw(t, "mut") {
			s = gen.MutateString(t, s, 1, escAlphabet)
		}
	case 1:
		if kind == "path" {
			s = gen.PathLike(t)
		} else {
			s = genVersionish(t)
		}
	default:
		n := rapid.IntRange(1, 8).Draw(t, "n")
		if kind == "path" {
			s = "example.com/"
		}
		for i := 0; i < n; i++ {
			s += escAlphabet[rapid.IntRange(0, len(escAlphabet)-1).Draw(t, "c")]
		}
	}
	return strCase{s, kind, gen.Chance(t, 30, "first")}
}

// inverse is the documented inverse of the escaping, or false.
func inverse(e string) (string, bool) {
	var b strings.Builder
	for i := 0; i < len(e); i++ {
		c := e[i]
		switch {
		case c >= 0x80:
			return "", false
		case c >= 'A' && c <= 'Z':
			return "", false
		case c == '!':
			if i+1 >= len(e) || e[i+1] < 'a' || e[i+1] > 'z' {
				return "", false
			}
			b.WriteByte(e[i+1] - 'a' + 'A')
			i++
		default:
			b.WriteByte(c)
		}
	}
	return b.String(), true
}

func checkUnescape(c strCase) pbt.Result {
	esc, unesc, valid := escapeFns(c.Kind)
	r := pbt.Result{NonTrivial: hasUpperOrBang(c.S)}
	if c.First {
		esc(rawUnescape(c.S))
		esc(c.S)
	}
	x, err := unesc(c.S)
	wx, wok := inverse(c.S)
	if wok && unspecified(c.Kind, wx) {
		r.Skip = true
		return r
	}
	wok = wok && valid(wx)
	r.Classes = []string{fmt.Sprintf("%s unescapable=%v", c.Kind, wok)}
	if (err == nil) != wok {
		r.Fail = pbt.Failf("unescape-iff-image", "Unescape%s(%q): got (%q,%v); is the escape of a valid input: %v", c.Kind, c.S, x, err, wok)
		return r
	}
	if err != nil {
		return r
	}
	if x != wx {
		r.Fail = pbt.Failf("unescape-value", "Unescape%s(%q)=%q want %q", c.Kind, c.S, x, wx)
		return r
	}
	if e, err := esc(x); err != nil || e != c.S {
		r.Fail = pbt.Failf("exact-image", "Unescape%s(%q)=%q but Escape of that is (%q,%v)", c.Kind, c.S, x, e, err)
	}
	return r
}

var subs = []pbt.Sub{
	pbt.New("escape", 80000, 300000, genStr, checkEscape),
	pbt.New("pair", 60000, 200000, genPair, checkPair),
	pbt.New("unescape", 80000, 300000, genEscaped, checkUnescape),
}

func TestGen(t *testing.T)    { pbt.RunAll(t, subs) }
func TestReplay(t *testing.T) { pbt.Replay(t, subs) }

func FuzzUnescape(f *testing.F) {
	for _, s := range []string{"github.com/!azure/x", "v1.0.0-!r!c1", "a!", "!A"} {
		f.Add(s, true)
		f.Add(s, false)
	}
	f.Fuzz(func(t *testing.T, s string, isPath bool) {
		kind := "version"
		if isPath {
			kind = "path"
		}
		for _, chk := range []struct {
			sub string
			fn  func(strCase) pbt.Result
		}{{"unescape", checkUnescape}, {"escape", checkEscape}} {
			res := chk.fn(strCase{S: s, Kind: kind})
			pbt.Count("fuzz-"+chk.sub, strCase{S: s, Kind: kind}, res)
			if res.Fail != nil {
				pbt.ReportFuzz(t, chk.sub, strCase{S: s, Kind: kind}, res.Fail)
			}
		}
	})
}
