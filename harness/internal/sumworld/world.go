// Package sumworld is a ground-truth checksum-database world for the client
// properties (C01, C13): the harness builds the logs, signs the tree heads
// with a key only it holds, and therefore knows which bytes are authentic.
// Nothing here uses golang.org/x/mod to produce or to judge data.
package sumworld

import (
	"bytes"
	"crypto/ed25519"
	"crypto/sha256"
	"encoding/base64"
	"encoding/binary"
	"fmt"
	"strconv"
	"strings"
	"sync"

	"verif/harness/internal/ref/merkleref"
	"verif/harness/internal/ref/noteref"
)

// Config describes a world.
type Config struct {
	H    int   // tile height the client uses
	NA   int64 // records in log A
	Fork int64 // -1: no second log; otherwise records [0,Fork) are common to A and B
	NB   int64 // records in log B (>= Fork)
	Seed int64
	// Twins: every record 7k+6 is for the module "proxy.example/" + the path of record 7k+3, at the same
	// version: its text contains the other record's "path version " prefix in the middle of its lines.
	Twins bool
	// Extra: further lines after the hash line of every tree head (tree heads are documented as extensible:
	// readers ignore lines they do not know). 0 = none; otherwise an index into ExtraLines.
	Extra int
}

// ExtraLines are texts a future server might add to its tree heads; they contain what careless formatting
// and scanning trip over (per cent signs, the header line again, digits, a would-be signature marker without its dash).
var ExtraLines = []string{"", "timestamp 1700000000\n", "load 75%, 3 of 4 %d %s %v %!\n", "go.sum database tree\n7\n", "100%\n%%\n", "note: - not a signature\n"}

type ModVer struct{ Path, Version string }

// Log is one transparency log.
type Log struct {
	Mods  []ModVer
	Texts [][]byte // record texts (go.sum lines)
	Tree  *merkleref.Tree
	index map[ModVer]int64
}

func (l *Log) Size() int64 { return int64(len(l.Texts)) }

// Lines are the genuine go.sum lines for path, vers in record id.
func (l *Log) Lines(id int64, path, vers string) []string {
	var out []string
	prefix := path + " " + vers + " "
	for _, line := range strings.Split(string(l.Texts[id]), "\n") {
		if strings.HasPrefix(line, prefix) {
			out = append(out, line)
		}
	}
	return out
}

func (l *Log) Find(m ModVer) (int64, bool) {
	id, ok := l.index[m]
	return id, ok
}

type World struct {
	Cfg     Config
	Name    string
	VKey    string
	priv    ed25519.PrivateKey
	pub     ed25519.PublicKey
	keyHash uint32
	A, B    *Log
}

var modNames = []string{"example.com/mod", "github.com/Azure/azure-sdk-for-go", "golang.org/x/text", "rsc.io/QUOTE", "go.sum", "example.com/a/v2", "gopkg.in/yaml.v2"}

// ModFor is the module@version whose record has the given id (before any fork).
func ModFor(id int64) ModVer {
	name := modNames[int(id)%len(modNames)]
	switch name {
	case "go.sum":
		if id < int64(len(modNames)) {
			return ModVer{"go.sum", "database"} // the pair whose prefix matches a line of the tree note
		}
		return ModVer{"go.sum", fmt.Sprintf("v0.0.%d", id)}
	case "example.com/a/v2", "gopkg.in/yaml.v2":
		return ModVer{name, fmt.Sprintf("v2.0.%d", id)}
	case "golang.org/x/text":
		// versions with upper-case letters: escaped in request paths and cache file names, plain in the go.sum lines
		return ModVer{name, fmt.Sprintf("v1.0.%d-RC1", id)}
	}
	return ModVer{name, fmt.Sprintf("v1.0.%d", id)}
}

func recordText(m ModVer, salt string) []byte {
	h1 := sha256.Sum256([]byte("zip:" + m.Path + "@" + m.Version + salt))
	h2 := sha256.Sum256([]byte("mod:" + m.Path + "@" + m.Version + salt))
	return []byte(fmt.Sprintf("%s %s h1:%s\n%s %s/go.mod h1:%s\n", m.Path, m.Version, base64.StdEncoding.EncodeToString(h1[:]), m.Path, m.Version, base64.StdEncoding.EncodeToString(h2[:])))
}

func newLog() *Log { return &Log{Tree: merkleref.NewTree(), index: map[ModVer]int64{}} }

func (l *Log) add(m ModVer, text []byte) {
	l.index[m] = int64(len(l.Texts))
	l.Mods = append(l.Mods, m)
	l.Texts = append(l.Texts, text)
	l.Tree.Append(text)
}

var (
	worldMu sync.Mutex
	worlds  = map[Config]*World{}
)

// New builds (or returns the cached) world for cfg. Worlds are immutable.
func New(cfg Config) *World {
	worldMu.Lock()
	defer worldMu.Unlock()
	key := cfg
	key.H, key.Extra = 0, 0
	if w, ok := worlds[key]; ok {
		c := *w
		c.Cfg = cfg
		return &c
	}
	w := &World{Cfg: cfg, Name: "sum.example.org"}
	seed := sha256.Sum256([]byte("server key " + strconv.FormatInt(cfg.Seed, 10)))
	w.priv = ed25519.NewKeyFromSeed(seed[:])
	w.pub = w.priv.Public().(ed25519.PublicKey)
	pubkey := append([]byte{1}, w.pub...)
	h := sha256.New()
	h.Write([]byte(w.Name))
	h.Write([]byte("\n"))
	h.Write(pubkey)
	w.keyHash = binary.BigEndian.Uint32(h.Sum(nil))
	w.VKey = fmt.Sprintf("%s+%08x+%s", w.Name, w.keyHash, base64.StdEncoding.EncodeToString(pubkey))
	w.A = newLog()
	modFor := func(i int64) ModVer {
		if cfg.Twins && i%7 == 6 {
			of := ModFor(i - 3)
			return ModVer{"proxy.example/" + of.Path, of.Version}
		}
		return ModFor(i)
	}
	for i := int64(0); i < cfg.NA; i++ {
		m := modFor(i)
		w.A.add(m, recordText(m, ""))
	}
	if cfg.Fork >= 0 {
		w.B = newLog()
		for i := int64(0); i < cfg.NB; i++ {
			m := modFor(i)
			switch {
			case i < cfg.Fork:
				w.B.add(m, recordText(m, ""))
			case i%2 == 0:
				w.B.add(m, recordText(m, " forked")) // same module@version, different hashes
			default:
				m.Path = "example.org/fork" + strconv.FormatInt(i, 10)
				w.B.add(m, recordText(m, " forked"))
			}
		}
	}
	if len(worlds) > 64 {
		worlds = map[Config]*World{}
	}
	worlds[key] = w
	return w
}

// TreeText is the documented text of a tree head.
func TreeText(n int64, hash merkleref.Hash) string {
	return fmt.Sprintf("go.sum database tree\n%d\n%s\n", n, base64.StdEncoding.EncodeToString(hash[:]))
}

// SignText signs text as a note with the world's key (the documented note format).
func (w *World) SignText(text string) []byte {
	sig := ed25519.Sign(w.priv, []byte(text))
	var hb [4]byte
	binary.BigEndian.PutUint32(hb[:], w.keyHash)
	return []byte(text + "\n— " + w.Name + " " + base64.StdEncoding.EncodeToString(append(hb[:], sig...)) + "\n")
}

// ForeignSign signs text under the server's *name* with a key the client does not know
// (what an adversary without the server key can always do).
func (w *World) ForeignSign(text string) []byte {
	seed := sha256.Sum256([]byte("adversary key"))
	priv := ed25519.NewKeyFromSeed(seed[:])
	pubkey := append([]byte{1}, priv.Public().(ed25519.PublicKey)...)
	h := sha256.New()
	h.Write([]byte(w.Name))
	h.Write([]byte("\n"))
	h.Write(pubkey)
	var hb [4]byte
	copy(hb[:], h.Sum(nil)[:4])
	sig := ed25519.Sign(priv, []byte(text))
	return []byte(text + "\n— " + w.Name + " " + base64.StdEncoding.EncodeToString(append(hb[:], sig...)) + "\n")
}

var headCache sync.Map

// Head is the signed tree head of the first n records of l.
func (w *World) Head(l *Log, n int64) []byte {
	if n == 0 {
		return nil // the empty, unsigned timeline
	}
	type k struct {
		l     *Log
		n     int64
		extra int
	}
	if v, ok := headCache.Load(k{l, n, w.Cfg.Extra}); ok {
		return v.([]byte)
	}
	extra := ""
	if w.Cfg.Extra > 0 && w.Cfg.Extra < len(ExtraLines) {
		extra = ExtraLines[w.Cfg.Extra]
	}
	msg := w.SignText(TreeText(n, l.Tree.MTH(0, n)) + extra)
	headCache.Store(k{l, n, w.Cfg.Extra}, msg)
	return msg
}

// LookupResponse is the server's answer for record id of l with the head of size headSize.
func (w *World) LookupResponse(l *Log, id, headSize int64) []byte {
	return append([]byte(fmt.Sprintf("%d\n%s\n", id, l.Texts[id])), w.Head(l, headSize)...)
}

// LookupResponseWithHead is a lookup answer carrying an arbitrary signed head.
func (w *World) LookupResponseWithHead(l *Log, id int64, head []byte) []byte {
	return append([]byte(fmt.Sprintf("%d\n%s\n", id, l.Texts[id])), head...)
}

// Tile returns the true content of a hash tile for the first size records of l, if it lies inside that tree.
func (w *World) Tile(l *Log, size int64, t TileCoord) ([]byte, bool) {
	if t.H < 1 || t.L < 0 || t.N < 0 || t.W < 1 || t.W > 1<<uint(t.H) || t.H*t.L > 60 {
		return nil, false
	}
	if (t.N<<uint(t.H)+int64(t.W))<<uint(t.H*t.L) > size {
		return nil, false
	}
	return l.Tree.TileData(t.H, t.L, t.N, t.W), true
}

// TileCoord are tile coordinates (see tlog.Tile), parsed independently.
type TileCoord struct {
	H, L int
	N    int64
	W    int
}

// ParseTilePath parses "tile/H/L/NNN[.p/W]" (x-prefixed three-digit groups).
func ParseTilePath(p string) (TileCoord, bool) {
	f := strings.Split(p, "/")
	if len(f) < 4 || f[0] != "tile" {
		return TileCoord{}, false
	}
	h, err1 := strconv.Atoi(f[1])
	l, err2 := strconv.Atoi(f[2])
	if err1 != nil || err2 != nil || h < 1 || h > 30 || l < 0 {
		return TileCoord{}, false
	}
	rest := f[3:]
	w := 1 << uint(h)
	if len(rest) >= 2 && strings.HasSuffix(rest[len(rest)-2], ".p") {
		ww, err := strconv.Atoi(rest[len(rest)-1])
		if err != nil || ww < 1 || ww >= w {
			return TileCoord{}, false
		}
		w = ww
		rest = append(append([]string{}, rest[:len(rest)-2]...), strings.TrimSuffix(rest[len(rest)-2], ".p"))
	}
	var n int64
	for i, g := range rest {
		if i < len(rest)-1 {
			if !strings.HasPrefix(g, "x") {
				return TileCoord{}, false
			}
			g = g[1:]
		}
		if len(g) != 3 {
			return TileCoord{}, false
		}
		d, err := strconv.Atoi(g)
		if err != nil || d < 0 {
			return TileCoord{}, false
		}
		n = n*1000 + int64(d)
	}
	return TileCoord{H: h, L: l, N: n, W: w}, true
}

// Path renders tile coordinates in the documented form.
func (t TileCoord) Path() string {
	digits := strconv.FormatInt(t.N, 10)
	for len(digits)%3 != 0 {
		digits = "0" + digits
	}
	var groups []string
	for i := 0; i < len(digits); i += 3 {
		g := digits[i : i+3]
		if i+3 < len(digits) {
			g = "x" + g
		}
		groups = append(groups, g)
	}
	s := "tile/" + strconv.Itoa(t.H) + "/" + strconv.Itoa(t.L) + "/" + strings.Join(groups, "/")
	if t.W != 1<<uint(t.H) {
		s += ".p/" + strconv.Itoa(t.W)
	}
	return s
}

// OpenHead verifies msg as a signed tree head with the harness's own note reader and
// Ed25519 call, and returns the tree size and hash it commits to.
func (w *World) OpenHead(msg []byte) (n int64, hash merkleref.Hash, ok bool) {
	res := noteref.Open(msg, func(name string, h uint32) (int, func(text, sig []byte) bool) {
		if name == w.Name && h == w.keyHash {
			return 1, func(text, sig []byte) bool { return ed25519.Verify(w.pub, text, sig) }
		}
		return 0, nil
	})
	if res.Class != noteref.OK {
		return 0, hash, false
	}
	lines := strings.SplitN(res.Text, "\n", 4)
	if len(lines) < 4 || lines[0] != "go.sum database tree" {
		return 0, hash, false
	}
	n, err := strconv.ParseInt(lines[1], 10, 64)
	if err != nil || n < 0 {
		return 0, hash, false
	}
	b, err := base64.StdEncoding.DecodeString(lines[2])
	if err != nil || len(b) != 32 {
		return 0, hash, false
	}
	copy(hash[:], b)
	return n, hash, true
}

// WhichLogs reports to which of the world's logs a (size, hash) tree head belongs.
func (w *World) WhichLogs(n int64, hash merkleref.Hash) (inA, inB bool) {
	if n == 0 {
		return true, w.B != nil
	}
	if n <= w.A.Size() && w.A.Tree.MTH(0, n) == hash {
		inA = true
	}
	if w.B != nil && n <= w.B.Size() && w.B.Tree.MTH(0, n) == hash {
		inB = true
	}
	return
}

// ParseLookupFile splits a lookup response / cache file into id, record text and signed head.
func ParseLookupFile(data []byte) (id int64, text, head []byte, ok bool) {
	i := bytes.IndexByte(data, '\n')
	if i < 0 {
		return 0, nil, nil, false
	}
	id, err := strconv.ParseInt(string(data[:i]), 10, 64)
	if err != nil || id < 0 {
		return 0, nil, nil, false
	}
	rest := data[i+1:]
	j := bytes.Index(rest, []byte("\n\n"))
	if j < 0 {
		return 0, nil, nil, false
	}
	return id, rest[:j+1], rest[j+2:], true
}

// EscapeUpper is the documented !-escaping.
func EscapeUpper(s string) string {
	var b strings.Builder
	for _, r := range s {
		if r >= 'A' && r <= 'Z' {
			b.WriteByte('!')
			b.WriteRune(r + 'a' - 'A')
		} else {
			b.WriteRune(r)
		}
	}
	return b.String()
}

// UnescapeUpper inverts EscapeUpper.
func UnescapeUpper(s string) (string, bool) {
	var b strings.Builder
	for i := 0; i < len(s); i++ {
		c := s[i]
		switch {
		case c == '!':
			if i+1 >= len(s) || s[i+1] < 'a' || s[i+1] > 'z' {
				return "", false
			}
			b.WriteByte(s[i+1] - 'a' + 'A')
			i++
		case c >= 'A' && c <= 'Z':
			return "", false
		default:
			b.WriteByte(c)
		}
	}
	return b.String(), true
}

// LookupFile is the cache file / remote path suffix for a module@version.
func LookupPath(m ModVer) string {
	return "/lookup/" + EscapeUpper(m.Path) + "@" + EscapeUpper(strings.TrimSuffix(m.Version, "/go.mod"))
}
