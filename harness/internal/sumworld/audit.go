package sumworld

import (
	"bytes"
	"strings"

	"verif/harness/internal/pbt"
)

// auditWrites checks every cache and configuration write against the ground truth.
// logs lists the logs whose content counts as genuine.
func AuditWrites(w *World, events []Event) *pbt.Failure {
	for _, e := range events {
		switch e.Op {
		case "security":
			if w.B == nil {
				return pbt.Failf("false-security-error", "a security error was raised although only one log exists:\n%s", e.Name)
			}
		case "writeconfig":
			if e.Err {
				continue
			}
			if e.Name != w.Name+"/latest" {
				return pbt.Failf("config-file", "WriteConfig to unexpected file %q", e.Name)
			}
			n, hash, ok := w.OpenHead(e.Delivered)
			if !ok {
				return pbt.Failf("stored-head-unsigned", "a head that does not open under the server key was stored: %q", e.Delivered)
			}
			inA, inB := w.WhichLogs(n, hash)
			if !inA && !inB {
				return pbt.Failf("stored-head-not-genuine", "a head for tree size %d that belongs to no log was stored", n)
			}
			oldN := int64(0)
			if len(e.Old) > 0 {
				on, _, ok := w.OpenHead(e.Old)
				if !ok {
					return pbt.Failf("replaced-head-unsigned", "WriteConfig replaces a value that is not a signed head: %q", e.Old)
				}
				oldN = on
			}
			if n < oldN {
				return pbt.Failf("stored-head-regressed", "stored head moved from size %d to %d", oldN, n)
			}
		case "writecache":
			rest := strings.TrimPrefix(e.Name, w.Name)
			switch {
			case strings.HasPrefix(rest, "/lookup/"):
				id, text, head, ok := ParseLookupFile(e.Delivered)
				if !ok {
					return pbt.Failf("cached-lookup-malformed", "malformed lookup file cached as %q: %q", e.Name, e.Delivered)
				}
				var l *Log
				for _, cand := range []*Log{w.A, w.B} {
					if cand != nil && id < cand.Size() && bytes.Equal(cand.Texts[id], text) {
						l = cand
						break
					}
				}
				if l == nil {
					return pbt.Failf("cached-record-not-genuine", "record %d cached as %q is not the genuine record: %q", id, e.Name, text)
				}
				// (The file name is not compared with the record's module: a server that answers with another
				// genuine record gets it cached under the requested name. That is authenticated data, which is
				// all the property demands; a later lookup re-validates it and returns no lines.)
				if len(head) == 0 {
					// a response cut right after the record: the client treats the missing note as the empty
					// timeline and authenticates the record against its own head; nothing unauthenticated is stored
					continue
				}
				n, hash, ok := w.OpenHead(head)
				inA, inB := w.WhichLogs(n, hash)
				// (The cached head need not contain the record: a server may attach an older genuine head, and the
				// client authenticates the record against its own newer head. Both pieces are authenticated.)
				if !ok || !(inA || inB) {
					return pbt.Failf("cached-head-not-genuine", "lookup file %q (record %d) cached with a head that is not a genuine signed head (opens=%v size=%d)", e.Name, id, ok, n)
				}
			case strings.HasPrefix(rest, "/tile/"):
				t, ok := ParseTilePath(rest[1:])
				if !ok {
					return pbt.Failf("cached-tile-name", "tile cached under unparseable name %q", e.Name)
				}
				match := false
				for _, l := range []*Log{w.A, w.B} {
					if l == nil {
						continue
					}
					if truth, ok := w.Tile(l, l.Size(), t); ok && bytes.Equal(truth, e.Delivered) {
						match = true
					}
				}
				if !match {
					return pbt.Failf("cached-tile-not-genuine", "tile %q was written to the cache with content that is not the true tile", e.Name)
				}
			default:
				return pbt.Failf("cache-file", "WriteCache to unexpected file %q", e.Name)
			}
		}
	}
	return nil
}
