package sumworld

import (
	"errors"
	"strings"

	"verif/harness/internal/ref/merkleref"
)

// FaultKinds lists the corruptions a plan may ask for.
var FaultKinds = []string{"bitflip", "bitflip", "truncate", "extend", "empty", "garbage", "swap", "swap", "stale-head", "old-record-head", "forged-record", "forged-record", "forged-chain", "forged-chain", "other-log", "other-log-head", "error", "drop-sig", "dup-line", "future-head", "foreign-key-head", "foreign-key-head", "partial-error-full-forged", "partial-error-full-forged", "swap-related"}

type forgery struct {
	id    int64
	text  []byte
	tree  *merkleref.Tree // the served log with record id replaced by text
	level int
}

// prepareForgery builds the forged log used by forged-record / forged-chain faults:
// the record the first lookup fault targets gets a new text, and tiles up to a level are recomputed.
func (o *Ops) prepareForgery(fs []Fault, honestRequests map[string][]string) {
	for _, f := range fs {
		if f.Kind != "forged-record" && f.Kind != "forged-chain" {
			continue
		}
		l := o.Srv.Log
		if o.Srv.Size == 0 {
			return
		}
		// the record to forge: the one named by a lookup resource if any, else by Ord
		id := int64(f.Ord2) % o.Srv.Size
		for _, op := range []string{"remote lookup", "cache lookup"} {
			if names := honestRequests[op]; len(names) > 0 {
				name := names[f.Ord%len(names)]
				mv := name[strings.Index(name, "/lookup/")+len("/lookup/"):]
				if i := strings.LastIndex(mv, "@"); i >= 0 {
					p, _ := UnescapeUpper(mv[:i])
					v, _ := UnescapeUpper(mv[i+1:])
					if rid, ok := l.Find(ModVer{p, v}); ok && rid < o.Srv.Size {
						id = rid
					}
				}
				break
			}
		}
		m := l.Mods[id]
		lvl := 0
		if f.Kind == "forged-chain" {
			lvl = f.Level
		}
		fg := &forgery{id: id, text: recordText(m, " forged by the adversary"), tree: merkleref.NewTree(), level: lvl}
		for i := int64(0); i < o.Srv.Size; i++ {
			if i == id {
				fg.tree.Append(fg.text)
			} else {
				fg.tree.Append(l.Texts[i])
			}
		}
		o.forged = fg
		return
	}
}

func (o *Ops) apply(f Fault, op, name string, data []byte, err error) ([]byte, error) {
	class := classOf(op, name)
	d := append([]byte(nil), data...)
	switch f.Kind {
	case "bitflip":
		if len(d) > 0 {
			d[f.I%len(d)] ^= 1 << uint(f.J%8)
		}
		return d, err
	case "truncate":
		if len(d) > 0 {
			return d[:f.I%len(d)], err
		}
	case "extend":
		return append(d, byte(f.I), byte(f.J)), err
	case "empty":
		return nil, err
	case "garbage":
		return []byte("\x00garbage\nnot a record\n\n— x AAAA\n"), nil
	case "error":
		return nil, errors.New("injected I/O error")
	case "partial-error-full-forged":
		// the partial tile cannot be fetched; the complete tile at the same position, which the client asks
		// for next, is served with its genuine first W hashes and a forged remainder
		if op == "remote" && class == "tile" {
			if t, ok := ParseTilePath(strings.TrimPrefix(name, "/")); ok && t.W < 1<<uint(t.H) {
				full := t
				full.W = 1 << uint(t.H)
				o.mu.Lock()
				if o.forgeFull == nil {
					o.forgeFull = map[string]int{}
				}
				o.forgeFull["/"+full.Path()] = t.W
				o.mu.Unlock()
				return nil, errors.New("injected I/O error (partial tile)")
			}
		}
		return d, err
	case "drop-sig":
		// drop the last signature line (heads and lookup responses end with one)
		if i := strings.LastIndex(strings.TrimSuffix(string(d), "\n"), "\n"); i >= 0 {
			return d[:i+1], err
		}
	case "dup-line":
		s := string(d)
		if i := strings.Index(s, "\n"); i >= 0 {
			return []byte(s[:i+1] + s), err
		}
	case "swap-related":
		// the authentic response for the record whose module path ends in the requested one (worlds with Twins)
		if class == "lookup" && strings.Contains(name, "/lookup/") {
			mv := name[strings.Index(name, "/lookup/")+len("/lookup/"):]
			if i := strings.LastIndex(mv, "@"); i >= 0 {
				p, _ := UnescapeUpper(mv[:i])
				v, _ := UnescapeUpper(mv[i+1:])
				if id, ok := o.Srv.Log.Find(ModVer{"proxy.example/" + p, v}); ok && id < o.Srv.Size {
					return o.W.LookupResponse(o.Srv.Log, id, o.Srv.Size), nil
				}
				if id, ok := o.Srv.Log.Find(ModVer{strings.TrimPrefix(p, "proxy.example/"), v}); ok && id < o.Srv.Size && strings.HasPrefix(p, "proxy.example/") {
					return o.W.LookupResponse(o.Srv.Log, id, o.Srv.Size), nil
				}
			}
		}
	case "swap":
		// another authentic resource of the same class
		switch class {
		case "lookup":
			l := o.Srv.Log
			if o.Srv.Size > 0 {
				id := int64(f.Ord2) % o.Srv.Size
				return o.W.LookupResponse(l, id, o.Srv.Size), nil
			}
		case "tile":
			if t, ok := ParseTilePath(name[strings.Index(name, "tile/"):]); ok {
				alts := []TileCoord{{t.H, t.L, t.N + 1, t.W}, {t.H, t.L, t.N - 1, t.W}, {t.H, t.L + 1, t.N, t.W}, {t.H, t.L - 1, t.N, t.W}, {t.H, t.L, t.N, t.W - 1}, {t.H, t.L, t.N, 1 << uint(t.H)}}
				for k := 0; k < len(alts); k++ {
					a := alts[(f.Ord2+k)%len(alts)]
					if ad, ok := o.W.Tile(o.Srv.Log, o.Srv.Size, a); ok {
						return ad, nil
					}
				}
			}
		case "latest":
			if o.Srv.Size > 0 {
				return o.W.Head(o.Srv.Log, 1+int64(f.Ord2)%o.Srv.Size), nil
			}
		}
	case "stale-head", "old-record-head":
		// the genuine resource with an older genuine signed head
		switch class {
		case "lookup":
			if id, text, _, ok := ParseLookupFile(d); ok && id < o.Srv.Size {
				_ = text
				hs := id + 1 + f.Size%(o.Srv.Size-id)
				if f.Kind == "old-record-head" {
					hs = 1 + f.Size%o.Srv.Size // possibly a head that does not even contain the record
				}
				return o.W.LookupResponse(o.Srv.Log, id, hs), nil
			}
		case "latest":
			if o.Srv.Size > 0 {
				return o.W.Head(o.Srv.Log, 1+f.Size%o.Srv.Size), nil
			}
		}
	case "future-head":
		// a head of a size the server does not have: signed text with a made-up hash is impossible
		// without the key, so this is a genuine head of the full log (beyond the served size) if any
		if class == "lookup" {
			if id, _, _, ok := ParseLookupFile(d); ok && id < o.Srv.Log.Size() {
				return o.W.LookupResponse(o.Srv.Log, id, o.Srv.Log.Size()), nil
			}
		}
		if class == "latest" {
			return o.W.Head(o.Srv.Log, o.Srv.Log.Size()), nil
		}
	case "foreign-key-head":
		// a tree head signed under the server's name by a key the client does not know; it commits to the
		// forged tree if a forgery is planned (so that a forged chain up to the root is self-consistent)
		size := o.Srv.Size
		root := o.Srv.Log.Tree.MTH(0, size)
		if o.forged != nil {
			root = o.forged.tree.MTH(0, size)
		}
		head := o.W.ForeignSign(TreeText(size, root))
		switch class {
		case "lookup":
			if i := strings.Index(string(d), "\n\n"); i >= 0 {
				return append(append([]byte(nil), d[:i+2]...), head...), err
			}
		case "latest":
			return head, nil
		}
	case "forged-record", "forged-chain":
		fg := o.forged
		if fg == nil {
			return d, err
		}
		switch class {
		case "lookup":
			if id, _, head, ok := ParseLookupFile(d); ok && id == fg.id {
				out := append([]byte(nil), d[:strings.Index(string(d), "\n")+1]...)
				out = append(out, fg.text...)
				out = append(out, '\n')
				return append(out, head...), nil
			}
		case "tile":
			if t, ok := ParseTilePath(name[strings.Index(name, "tile/"):]); ok {
				maxL := 0
				if f.Kind == "forged-chain" {
					maxL = fg.level
				}
				if t.L <= maxL && (t.N<<uint(t.H)+int64(t.W))<<uint(t.H*t.L) <= fg.tree.Size() {
					return fg.tree.TileData(t.H, t.L, t.N, t.W), nil
				}
			}
		}
	case "other-log", "other-log-head":
		// the same resource as the other log would serve it (a forking server with the real key)
		other := o.W.B
		if o.Srv.Log == o.W.B {
			other = o.W.A
		}
		if other == nil {
			return d, err
		}
		osize := other.Size()
		if f.Size > 0 && f.Kind == "other-log-head" {
			osize = 1 + f.Size%other.Size()
		}
		switch class {
		case "lookup":
			mv := name[strings.Index(name, "/lookup/")+len("/lookup/"):]
			if i := strings.LastIndex(mv, "@"); i >= 0 {
				p, _ := UnescapeUpper(mv[:i])
				v, _ := UnescapeUpper(mv[i+1:])
				if f.Kind == "other-log-head" {
					// our own record, but with a head of the other log
					if id, _, _, ok := ParseLookupFile(d); ok && id < o.Srv.Log.Size() {
						return o.W.LookupResponseWithHead(o.Srv.Log, id, o.W.Head(other, osize)), nil
					}
				}
				if id, ok := other.Find(ModVer{p, v}); ok {
					hs := osize
					if hs <= id {
						hs = other.Size()
					}
					return o.W.LookupResponse(other, id, hs), nil
				}
			}
		case "tile":
			if t, ok := ParseTilePath(name[strings.Index(name, "tile/"):]); ok {
				if od, ok := o.W.Tile(other, other.Size(), t); ok {
					return od, nil
				}
			}
		case "latest":
			return o.W.Head(other, osize), nil
		}
	}
	return d, err
}
