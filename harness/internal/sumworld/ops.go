package sumworld

import (
	"bytes"
	"errors"
	"fmt"
	"sort"
	"strings"
	"sync"
)

// Fault asks for a corruption of one response.
// The target is chosen by class and ordinal among the resources of that class
// that the fault-free run requested (sorted by name), so that a fault plan is
// independent of goroutine scheduling.
type Fault struct {
	Op    string // "remote", "cache", "config"
	Class string // "lookup", "tile", "latest"
	Ord   int    // which resource of that class (mod count)
	Occ   int    // which occurrence of the request for that resource (0 = first)
	Kind  string
	I, J  int
	Ord2  int   // for swaps: which other resource
	Size  int64 // for stale / other-head kinds: a tree size
	Level int   // forged chain: highest tile level forged
}

// Event records one ClientOps call.
type Event struct {
	Op        string // remote, cache, config, writecache, writeconfig, security, log
	Name      string
	Delivered []byte
	Honest    []byte
	HonestErr bool
	Err       bool
	Old       []byte // writeconfig
	Faulted   string // kind of fault applied, if any
}

// Server decides what the remote side answers.
type Server struct {
	Log  *Log  // log served
	Size int64 // current size of the served log
}

// Ops implements the client's external operations over a world.
type Ops struct {
	W      *World
	Srv    Server
	mu     sync.Mutex
	Config map[string][]byte
	Cache  map[string][]byte
	Events []Event
	// resolved faults: key = op + " " + name + "#" + occurrence
	faults map[string][]Fault
	counts map[string]int
	// forged material prepared for "forged" fault kinds
	forged *forgery
	// forgeFull: complete tiles (remote path) to serve with a forged remainder after the first W genuine hashes
	forgeFull map[string]int
	// WriteConflicts makes the next n WriteConfig calls see a concurrent update (C13).
	Interfere func(file string, cur []byte) []byte
}

var ErrNotFound = errors.New("404 not found")

func NewOps(w *World, srv Server) *Ops {
	return &Ops{W: w, Srv: srv, Config: map[string][]byte{"key": []byte(w.VKey + "\n")}, Cache: map[string][]byte{}, faults: map[string][]Fault{}, counts: map[string]int{}}
}

// Honest answers -----------------------------------------------------------

func (o *Ops) honestRemote(path string) ([]byte, error) {
	switch {
	case strings.HasPrefix(path, "/lookup/"):
		mv := strings.TrimPrefix(path, "/lookup/")
		i := strings.LastIndex(mv, "@")
		if i < 0 {
			return nil, ErrNotFound
		}
		p, ok1 := UnescapeUpper(mv[:i])
		v, ok2 := UnescapeUpper(mv[i+1:])
		if !ok1 || !ok2 {
			return nil, ErrNotFound
		}
		id, ok := o.Srv.Log.Find(ModVer{p, v})
		if !ok || id >= o.Srv.Size {
			return nil, ErrNotFound
		}
		return o.W.LookupResponse(o.Srv.Log, id, o.Srv.Size), nil
	case strings.HasPrefix(path, "/tile/"):
		t, ok := ParseTilePath(path[1:])
		if !ok {
			return nil, ErrNotFound
		}
		d, ok := o.W.Tile(o.Srv.Log, o.Srv.Size, t)
		if !ok {
			return nil, ErrNotFound
		}
		return d, nil
	}
	return nil, ErrNotFound
}

// class of a resource name
func classOf(op, name string) string {
	switch {
	case strings.Contains(name, "/lookup/"):
		return "lookup"
	case strings.Contains(name, "/tile/") || strings.HasPrefix(name, "tile/"):
		return "tile"
	case strings.HasSuffix(name, "/latest"):
		return "latest"
	}
	return "other"
}

// Requests lists, per "op class", the distinct resource names seen so far, sorted.
func (o *Ops) Requests() map[string][]string {
	o.mu.Lock()
	defer o.mu.Unlock()
	set := map[string]map[string]bool{}
	for _, e := range o.Events {
		if e.Op != "remote" && e.Op != "cache" && e.Op != "config" {
			continue
		}
		k := e.Op + " " + classOf(e.Op, e.Name)
		if set[k] == nil {
			set[k] = map[string]bool{}
		}
		set[k][e.Name] = true
	}
	out := map[string][]string{}
	for k, s := range set {
		for n := range s {
			out[k] = append(out[k], n)
		}
		sort.Strings(out[k])
	}
	return out
}

// Resolve binds abstract faults to concrete resource names using the request
// sets of a fault-free run.
func (o *Ops) Resolve(fs []Fault, honestRequests map[string][]string) {
	for _, f := range fs {
		names := honestRequests[f.Op+" "+f.Class]
		if len(names) == 0 {
			continue
		}
		name := names[f.Ord%len(names)]
		key := fmt.Sprintf("%s %s#%d", f.Op, name, f.Occ)
		o.faults[key] = append(o.faults[key], f)
	}
	o.prepareForgery(fs, honestRequests)
}

func (o *Ops) deliver(op, name string, honest []byte, herr error) ([]byte, error) {
	o.mu.Lock()
	ck := op + " " + name
	occ := o.counts[ck]
	o.counts[ck]++
	fs := o.faults[fmt.Sprintf("%s %s#%d", op, name, occ)]
	o.mu.Unlock()
	data, err := honest, herr
	applied := ""
	// a coherent adversary: once a forgery is planned, every remote response it touches is forged
	// (the record's lookup answer and every tile up to the forged level), not only the targeted one
	if o.forged != nil && op == "remote" && herr == nil {
		kind := "forged-record"
		if o.forged.level > 0 {
			kind = "forged-chain"
		}
		nd, _ := o.apply(Fault{Kind: kind, Level: o.forged.level}, op, name, data, nil)
		if !bytes.Equal(nd, data) {
			data = nd
			applied += kind + " "
		}
	}
	for _, f := range fs {
		data, err = o.apply(f, op, name, data, err)
		applied += f.Kind + " "
	}
	if op == "remote" {
		o.mu.Lock()
		w, armed := o.forgeFull[name]
		o.mu.Unlock()
		if armed {
			// the server has the complete tile only if its log has grown past it; a forking or lying server
			// can always produce one: genuine prefix, invented remainder
			t, _ := ParseTilePath(strings.TrimPrefix(name, "/"))
			part := t
			part.W = w
			if genuine, ok := o.W.Tile(o.Srv.Log, o.Srv.Log.Size(), part); ok {
				forged := append([]byte(nil), genuine...)
				for i := len(forged); i < (1<<uint(t.H))*32; i++ {
					forged = append(forged, byte(i*7+3))
				}
				data, err = forged, nil
				applied += "full-tile-forged-tail "
			}
		}
	}
	o.mu.Lock()
	o.Events = append(o.Events, Event{Op: op, Name: name, Delivered: append([]byte(nil), data...), Honest: append([]byte(nil), honest...), HonestErr: herr != nil, Err: err != nil, Faulted: strings.TrimSpace(applied)})
	o.mu.Unlock()
	return data, err
}

// ClientOps ------------------------------------------------------------------

func (o *Ops) ReadRemote(path string) ([]byte, error) {
	h, err := o.honestRemote(path)
	return o.deliver("remote", path, h, err)
}

func (o *Ops) ReadConfig(file string) ([]byte, error) {
	o.mu.Lock()
	h, ok := o.Config[file]
	o.mu.Unlock()
	var err error
	if !ok {
		if file == o.W.Name+"/latest" {
			h = nil // "empty" signed tree
		} else {
			err = ErrNotFound
		}
	}
	return o.deliver("config", file, append([]byte(nil), h...), err)
}

func (o *Ops) WriteConfig(file string, old, new []byte) error {
	o.mu.Lock()
	defer o.mu.Unlock()
	if o.Interfere != nil {
		if upd := o.Interfere(file, o.Config[file]); upd != nil {
			o.Config[file] = upd
		}
	}
	cur := o.Config[file]
	ev := Event{Op: "writeconfig", Name: file, Delivered: append([]byte(nil), new...), Old: append([]byte(nil), old...)}
	if !bytes.Equal(cur, old) {
		ev.Err = true
		o.Events = append(o.Events, ev)
		return errWriteConflict
	}
	o.Config[file] = append([]byte(nil), new...)
	o.Events = append(o.Events, ev)
	return nil
}

// errWriteConflict must be the client's sentinel; it is set by the test package (which imports sumdb).
var errWriteConflict error = errors.New("write conflict (sentinel not set)")

// SetWriteConflict installs sumdb.ErrWriteConflict.
func SetWriteConflict(err error) { errWriteConflict = err }

func (o *Ops) ReadCache(file string) ([]byte, error) {
	o.mu.Lock()
	h, ok := o.Cache[file]
	o.mu.Unlock()
	var err error
	if !ok {
		err = ErrNotFound
	}
	return o.deliver("cache", file, append([]byte(nil), h...), err)
}

func (o *Ops) WriteCache(file string, data []byte) {
	o.mu.Lock()
	defer o.mu.Unlock()
	o.Cache[file] = append([]byte(nil), data...)
	o.Events = append(o.Events, Event{Op: "writecache", Name: file, Delivered: append([]byte(nil), data...)})
}

func (o *Ops) Log(msg string) {
	o.mu.Lock()
	defer o.mu.Unlock()
	o.Events = append(o.Events, Event{Op: "log", Name: msg})
}

func (o *Ops) SecurityError(msg string) {
	o.mu.Lock()
	defer o.mu.Unlock()
	o.Events = append(o.Events, Event{Op: "security", Name: msg})
}

// Snapshot returns a copy of the events so far.
func (o *Ops) Snapshot() []Event {
	o.mu.Lock()
	defer o.mu.Unlock()
	return append([]Event(nil), o.Events...)
}

// PrefillCache stores authentic lookup files and tiles of the first size records of l.
// mode: 0 nothing, 1 about half (deterministic by index), 2 everything.
func (o *Ops) PrefillCache(l *Log, size int64, mode int) {
	if mode == 0 || size == 0 {
		return
	}
	h := o.W.Cfg.H
	for id := int64(0); id < size; id++ {
		if mode == 1 && id%2 == 1 {
			continue
		}
		o.Cache[o.W.Name+LookupPath(l.Mods[id])] = o.W.LookupResponse(l, id, size)
	}
	// every full tile and the partial fringe tile of each level
	for L := 0; (size >> uint(h*L)) > 0; L++ {
		cnt := size >> uint(h*L)
		for n := int64(0); n<<uint(h) < cnt; n++ {
			w := 1 << uint(h)
			if rem := cnt - n<<uint(h); rem < int64(w) {
				w = int(rem)
			}
			if mode == 1 && (n+int64(L))%2 == 1 {
				continue
			}
			t := TileCoord{H: h, L: L, N: n, W: w}
			d, ok := o.W.Tile(l, size, t)
			if ok {
				o.Cache[o.W.Name+"/"+t.Path()] = d
			}
		}
	}
}
