// Package gen holds rapid generators shared between property packages.
package gen

import (
	"strings"

	"pgregory.net/rapid"
)

// VerParts is a version under construction; fields may be deliberately malformed.
type VerParts struct {
	Prefix string // normally "v"
	Nums   []string
	Pre    []string // nil = none
	Build  []string // nil = none
}

func (p VerParts) String() string {
	s := p.Prefix + strings.Join(p.Nums, ".")
	if p.Pre != nil {
		s += "-" + strings.Join(p.Pre, ".")
	}
	if p.Build != nil {
		s += "+" + strings.Join(p.Build, ".")
	}
	return s
}

func digits(t *rapid.T, lo, hi int, label string) string {
	n := rapid.IntRange(lo, hi).Draw(t, label+"len")
	b := make([]byte, n)
	for i := range b {
		b[i] = byte('0' + rapid.IntRange(0, 9).Draw(t, label+"d"))
	}
	if n > 0 && b[0] == '0' && n > 1 {
		b[0] = byte('1' + rapid.IntRange(0, 8).Draw(t, label+"d0"))
	}
	return string(b)
}

// Num draws a numeric field. hostile>0 allows malformed fields.
func Num(t *rapid.T, hostile bool, label string) string {
	k := rapid.IntRange(0, 99).Draw(t, label+"kind")
	switch {
	case k < 20:
		return "0"
	case k < 55:
		return []string{"1", "2", "3", "9", "10", "11", "19", "20", "99", "100"}[rapid.IntRange(0, 9).Draw(t, label+"small")]
	case k < 70:
		return digits(t, 1, 6, label)
	case k < 80:
		return digits(t, 17, 22, label) // around the 64-bit boundary
	case k < 86:
		return digits(t, 23, 40, label)
	case k < 90:
		return []string{"18446744073709551615", "18446744073709551616", "9223372036854775807", "9223372036854775808", "99999999999999999999", "100000000000000000000"}[rapid.IntRange(0, 5).Draw(t, label+"edge")]
	}
	if !hostile {
		return "1"
	}
	return []string{"", "00", "01", "007", "1a", "-1", " 1", "1 ", "١", "0x1"}[rapid.IntRange(0, 9).Draw(t, label+"bad")]
}

var alnum = []byte("abcxyzABCXYZ019-")

// nearIdent edits one identifier at character level; the result is non-empty and has no leading-zero number.
func nearIdent(t *rapid.T, id string) string {
	b := []byte(id)
	for n := rapid.IntRange(1, 2).Draw(t, "nedits"); n > 0; n-- {
		pos := rapid.IntRange(0, len(b)).Draw(t, "epos")
		c := alnum[rapid.IntRange(0, len(alnum)-1).Draw(t, "echar")]
		switch rapid.IntRange(0, 2).Draw(t, "eop") {
		case 0:
			b = append(b[:pos:pos], append([]byte{c}, b[pos:]...)...)
		case 1:
			if pos < len(b) && len(b) > 1 {
				b = append(b[:pos:pos], b[pos+1:]...)
			}
		case 2:
			if pos < len(b) {
				b[pos] = c
			}
		}
	}
	out := string(b)
	allDigits := true
	for _, c := range b {
		if c < '0' || c > '9' {
			allDigits = false
		}
	}
	if out == "" || allDigits && len(out) > 1 && out[0] == '0' {
		return "x" + out
	}
	return out
}

func identChars(t *rapid.T, lo, hi int, label string) string {
	n := rapid.IntRange(lo, hi).Draw(t, label+"len")
	b := make([]byte, n)
	for i := range b {
		b[i] = alnum[rapid.IntRange(0, len(alnum)-1).Draw(t, label+"c")]
	}
	return string(b)
}

// PreIdent draws one prerelease identifier.
func PreIdent(t *rapid.T, hostile bool, label string) string {
	k := rapid.IntRange(0, 99).Draw(t, label+"kind")
	switch {
	case k < 30:
		return Num(t, false, label+"n")
	case k < 50:
		return []string{"alpha", "beta", "rc", "pre", "RC", "Alpha", "a", "b", "A", "-", "--", "0a", "a0", "0-", "-0", "00a", "1-1", "rc-1", "rc-9", "rc-10", "x-1a", "x-2", "x--", "20200101000000-123456789012", "20200101000000-abcdef123456",
			// alphanumeric identifiers that begin with a digit or a hyphen, next to numeric ones of the same length
			"1a", "1-", "9z", "92", "10", "5", "0-0", "100", "1-0", "99", "9-"}[Uniform(t, 36, label+"word")]
	case k < 80:
		return identChars(t, 1, 5, label)
	case k < 88:
		return []string{"0", "1", "2", "10", "9"}[rapid.IntRange(0, 4).Draw(t, label+"sm")]
	}
	if !hostile {
		return "x"
	}
	if Chance(t, 30, label+"anybyte") {
		id := identChars(t, 0, 3, label+"ab")
		at := rapid.IntRange(0, len(id)).Draw(t, label+"abat")
		return id[:at] + string([]byte{byte(Uniform(t, 256, label+"abb"))}) + id[at:]
	}
	return []string{"", "00", "01", "0123", "a_b", "a b", "é", "a+b", "~", "a/b", "\u0161", "\u0430", "\u754c", "\u012d", "\uff11", "a\u0300"}[rapid.IntRange(0, 15).Draw(t, label+"bad")]
}

// BuildIdent draws one build identifier (leading zeros are fine there).
func BuildIdent(t *rapid.T, hostile bool, label string) string {
	k := rapid.IntRange(0, 99).Draw(t, label+"kind")
	switch {
	case k < 25:
		return "incompatible"
	case k < 45:
		return []string{"meta", "001", "0", "00", "build-5", "-", "A"}[rapid.IntRange(0, 6).Draw(t, label+"word")]
	case k < 88:
		return identChars(t, 1, 5, label)
	}
	if !hostile {
		return "b"
	}
	if Chance(t, 30, label+"anybyte") {
		id := identChars(t, 0, 3, label+"ab")
		at := rapid.IntRange(0, len(id)).Draw(t, label+"abat")
		return id[:at] + string([]byte{byte(Uniform(t, 256, label+"abb"))}) + id[at:]
	}
	return []string{"", "a_b", "é", "+", "a b", "\u0161", "\u0430", "\u754c", "\u012d", "\uff11", "x\u0161y"}[rapid.IntRange(0, 10).Draw(t, label+"bad")]
}

// Parts draws a version; with hostile=false it is always valid.
func Parts(t *rapid.T, hostile bool) VerParts {
	p := VerParts{Prefix: "v"}
	if Uniform(t, 4000, "verylong") == 0 {
		// versions beyond 64 KiB: a numeric field, a prerelease identifier or many identifiers
		n := []int{65530, 65536, 65537, 70000, 131073}[Uniform(t, 5, "verylongn")]
		p.Nums = []string{"1", "2", "3"}
		switch Uniform(t, 4, "verylongk") {
		case 0:
			p.Nums[Uniform(t, 3, "verylongf")] = strings.Repeat("9", n)
		case 1:
			p.Pre = []string{strings.Repeat("a", n)}
		case 2:
			p.Pre = []string{"rc", strings.Repeat("7", n), "x"}
		case 3:
			p.Nums = []string{strings.Repeat("7", n)}
		}
		if Chance(t, 30, "verylongbuild") {
			p.Build = []string{"meta"}
		}
		return p
	}
	if hostile && rapid.IntRange(0, 39).Draw(t, "pfx") == 0 {
		p.Prefix = []string{"", "V", "vv", "v ", "go"}[rapid.IntRange(0, 4).Draw(t, "badpfx")]
	}
	nn := 3
	k := rapid.IntRange(0, 99).Draw(t, "nn")
	switch {
	case k < 8:
		nn = 1
	case k < 16:
		nn = 2
	case k < 18 && hostile:
		nn = 4
	case k < 19 && hostile:
		nn = 0
	}
	for i := 0; i < nn; i++ {
		p.Nums = append(p.Nums, Num(t, hostile, "num"))
	}
	allowSuffix := nn == 3 || (hostile && rapid.IntRange(0, 9).Draw(t, "shortsuffix") == 0)
	if allowSuffix && rapid.IntRange(0, 99).Draw(t, "haspre") < 55 {
		n := []int{1, 1, 1, 2, 2, 3, 4, 9, 24}[rapid.IntRange(0, 8).Draw(t, "npre")]
		if Chance(t, 6, "manyidents") {
			// more identifiers than bits in a machine word
			n = []int{31, 32, 33, 63, 64, 65, 66, 130}[Uniform(t, 8, "npremany")]
		}
		p.Pre = []string{}
		for i := 0; i < n; i++ {
			p.Pre = append(p.Pre, PreIdent(t, hostile, "pre"))
		}
	}
	if allowSuffix && rapid.IntRange(0, 99).Draw(t, "hasbuild") < 25 {
		n := []int{1, 1, 2, 3, 12}[rapid.IntRange(0, 4).Draw(t, "nbuild")]
		p.Build = []string{}
		for i := 0; i < n; i++ {
			p.Build = append(p.Build, BuildIdent(t, hostile, "build"))
		}
	}
	return p
}

// Near derives a version close to p: one component re-drawn, added or removed.
func Near(t *rapid.T, p VerParts, hostile bool) VerParts {
	q := VerParts{Prefix: p.Prefix, Nums: append([]string(nil), p.Nums...)}
	if p.Pre != nil {
		q.Pre = append([]string{}, p.Pre...)
	}
	if p.Build != nil {
		q.Build = append([]string{}, p.Build...)
	}
	switch rapid.IntRange(0, 9).Draw(t, "nearop") {
	case 0, 1:
		if len(q.Nums) > 0 {
			i := rapid.IntRange(0, len(q.Nums)-1).Draw(t, "ni")
			q.Nums[i] = Num(t, hostile, "nnum")
		}
	case 2, 3, 4:
		if len(q.Pre) > 0 {
			i := rapid.IntRange(0, len(q.Pre)-1).Draw(t, "pi")
			if len(q.Pre) > 8 && rapid.Bool().Draw(t, "tailident") {
				i = len(q.Pre) - 1 - rapid.IntRange(0, 2).Draw(t, "fromend")
			}
			if rapid.Bool().Draw(t, "charlevel") {
				// stay close: edit the identifier at character level (keeps shared prefixes,
				// changes lengths of digit runs after a hyphen, turns numeric into alphanumeric, ...)
				q.Pre[i] = nearIdent(t, q.Pre[i])
			} else {
				q.Pre[i] = PreIdent(t, hostile, "npre")
			}
		} else if len(q.Nums) == 3 {
			q.Pre = []string{PreIdent(t, hostile, "npre")}
		}
	case 5:
		if len(q.Nums) == 3 {
			q.Pre = append(q.Pre, PreIdent(t, hostile, "npre"))
			if q.Pre == nil {
				q.Pre = []string{"0"}
			}
		}
	case 6:
		if len(q.Pre) > 1 {
			q.Pre = q.Pre[:len(q.Pre)-1]
		} else {
			q.Pre = nil
		}
	case 7:
		if len(q.Nums) == 3 {
			if q.Build == nil {
				q.Build = []string{BuildIdent(t, hostile, "nb")}
			} else {
				q.Build = nil
			}
		}
	case 8:
		// shorten / lengthen with zeros: v1.2 vs v1.2.0
		if len(q.Nums) == 3 && q.Nums[2] == "0" && q.Pre == nil && q.Build == nil {
			q.Nums = q.Nums[:2]
		} else if len(q.Nums) < 3 && len(q.Nums) > 0 {
			q.Nums = append(q.Nums, "0")
		}
	case 9:
		// identical
		return q
	}
	if q.String() == p.String() && len(q.Nums) > 0 {
		i := rapid.IntRange(0, len(q.Nums)-1).Draw(t, "fi")
		q.Nums[i] = Num(t, false, "fnum")
	}
	return q
}

var hostileBytes = []string{"v", ".", "-", "+", "0", "1", "a", "Z", "_", " ", "\n", "\x00", "é", "\xff", "/", "00", ".0", "-0", "+0", "..", "--", "++",
	// code points whose low byte is an ASCII letter, digit or hyphen (U+0161 -> 'a', U+0430 -> '0', U+754C -> 'L', U+012D -> '-'), a full-width digit, a combining mark
	"\u0161", "\u0430", "\u754c", "\u012d", "\uff11", "\u0300"}

// MutateString applies n byte-level edits to s.
func MutateString(t *rapid.T, s string, n int, alphabet []string) string {
	for ; n > 0; n-- {
		op := rapid.IntRange(0, 3).Draw(t, "mop")
		pos := 0
		if len(s) > 0 {
			pos = rapid.IntRange(0, len(s)).Draw(t, "mpos")
		}
		ins := alphabet[rapid.IntRange(0, len(alphabet)-1).Draw(t, "mins")]
		if Chance(t, 25, "manybyte") {
			// any single byte: the ones that alias a legal character under a bit trick (0x0D | 0x20 is '-',
			// '@' | 0x20 is '`', c - '0' wrapping) are not in any fixed pool
			ins = string([]byte{byte(Uniform(t, 256, "mbyte"))})
		}
		switch op {
		case 0: // insert
			s = s[:pos] + ins + s[pos:]
		case 1: // delete
			if pos < len(s) {
				s = s[:pos] + s[pos+1:]
			}
		case 2: // replace
			if pos < len(s) {
				s = s[:pos] + ins + s[pos+1:]
			}
		case 3: // duplicate
			if pos < len(s) {
				s = s[:pos] + s[pos:pos+1] + s[pos:]
			}
		}
	}
	return s
}

// VersionString draws a version-like string: grammar, optionally mutated; sometimes arbitrary.
// The second result says whether the string was derived (by at most one mutation) from a grammar string.
func VersionString(t *rapid.T) (string, bool) {
	k := rapid.IntRange(0, 99).Draw(t, "vskind")
	switch {
	case k < 50:
		return Parts(t, false).String(), true
	case k < 75:
		return Parts(t, true).String(), true
	case k < 95:
		return MutateString(t, Parts(t, false).String(), 1, hostileBytes), true
	}
	return rapid.String().Draw(t, "arb"), false
}
