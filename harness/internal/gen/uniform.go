package gen

import "pgregory.net/rapid"

// rapid's integer generators are deliberately biased towards small values and
// the range ends (0 and 1 each take about 12% of IntRange(0,19)). Where a
// generator needs an honest small probability it draws fair bits instead.

// Uniform returns an (almost) uniform value in [0, n), n <= 1<<16, built from fair bits.
// It shrinks towards 0.
func Uniform(t *rapid.T, n int, label string) int {
	v := 0
	for i := 0; i < 16; i++ {
		v <<= 1
		if rapid.Bool().Draw(t, label) {
			v |= 1
		}
	}
	return v % n
}

// Chance is true with probability pct/100; it shrinks towards false.
func Chance(t *rapid.T, pct int, label string) bool {
	v := 0
	for i := 0; i < 8; i++ {
		v <<= 1
		if rapid.Bool().Draw(t, label) {
			v |= 1
		}
	}
	return 255-v < pct*256/100
}
