package gen

import "pgregory.net/rapid"

// Schedule draws n scheduling decisions for internal/sched. Two thirds of the schedules pick uniformly among
// the pending operations at every step; the others are "sticky": most decisions (50, 75 or 90%) continue with
// the goroutine that ran last (decision value 64, sched.Newest), so that one goroutine goes a long way while
// the others stay parked in the middle of what they were doing. Windows that need five or ten consecutive
// steps of one goroutine are next to unreachable under uniform choice.
func Schedule(t *rapid.T, n int, label string) []int {
	out := make([]int, n)
	sticky := 0
	if Chance(t, 35, label+"sticky") {
		sticky = []int{50, 75, 90}[Uniform(t, 3, label+"stickiness")]
	}
	for i := range out {
		if sticky > 0 && Chance(t, sticky, label+"stay") {
			out[i] = 64
		} else {
			out[i] = rapid.IntRange(0, 7).Draw(t, label+"choice")
		}
	}
	return out
}
