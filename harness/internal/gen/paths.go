package gen

import (
	"strings"

	"pgregory.net/rapid"
)

var plainWords = []string{"a", "b", "x", "pkg", "mod", "go", "internal", "cmd", "v", "api", "z9", "foo-bar", "foo_bar", "a.b", "x.y.z"}
var upperWords = []string{"A", "Azure", "BurntSushi", "Pkg", "MOD", "aB", "Ab", "AB", "K", "S", "README", "Makefile"}
var reservedish = []string{"con", "CON", "Con", "prn", "aux", "AUX", "nul", "NUL", "com1", "COM9", "Com5", "lpt1", "LPT9", "com0", "com10", "lpt", "COM", "con.txt", "CON.a.b", "nul.go", "aux.", "com1.x", "xcon", "con1", "conx", "a.con", "Lpt3.tar.gz", "con~1", "nul~x"}
var tildeForms = []string{"a~1", "a~12", "a~1.b", "a~b", "~1", "a~", "a~1b", "a.b~1", "a~1~2", "a~1~b", "~", "~~1", "a~0", "abcdef~1.txt", "a.~1", "a~1.", "x~y~1.z~2", "rev~3", "snapshot~20240101", "v1~0.2.3", "RC~1", "v1.0.0~1", "2.0~rc1",
	"pkg~99999999999999999999", "a~18446744073709551616", "a~18446744073709551615", "a~b~77777777777777777777", "x~000000000000000000000000000001"}
var dotForms = []string{".", "..", "...", ".a", "a.", ".a.", "a..b", ".git", ".gitignore", "a.b.", "..a", "a...b"}
var unicodeForms = []string{"x\u0663", "\uff12", "v\u096b.go", "a\U0001d7d9b", "x\u00b2", "é", "日本語", "K", "ſ", "σς", "ǅ", "naïve", "x́", "a b", "İ", "ß", "π.go", "٣", "a​b",
	// Latin-1 and table boundaries: letters (U+00AA, U+00B5, U+00BA, U+00C0, U+00D6, U+00D8, U+00F6, U+00F8, U+00FE, U+00FF, U+0100, U+017F), non-letters (U+00D7, U+00F7, U+00A0, U+00AD, U+00B2)
	"\u00aa", "\u00b5x", "\u00ba", "\u00c0", "\u00d6", "\u00d8", "\u00f6", "\u00f8", "\u00fe", "a\u00ffb", "\u00ff", "\u0100", "\u00d7", "a\u00f7b", "a\u00a0b", "a\u00adb", "x\u00b2",
	// last code points of planes and blocks
	"\uffff", "\U0001f600", "\U0002a6d6", "\U0010ffff", "\u2c65", "\u023a", "\u1e9e", "\u2126", "\u212b"}
var punctAll = "!\"#$%&'()*+,-./:;<=>?@[\\]^_`{|}~ "
var majorTails = []string{"v2", "v3", "v10", "v1", "v0", "v01", "v02", "v2.3", "v.2", "v2.", "v", "v2a", "V2", "v22", "v9999999999999999999999", "v1.0", "v2.0"}
var gopkgTails = []string{"yaml.v2", "yaml.v3", "yaml.v0", "yaml.v1", "yaml.v1-unstable", "yaml.v2-unstable", "yaml.v01", "yaml.v00", "yaml.v", "yaml.v-unstable", "yaml.v0-unstable", "yaml.vx", "yaml", "yaml.v2-unstabl", "yaml.v10", "check.v1", ".v2", "v2", "yaml.V2", "yaml.v2-unstable-unstable", "user/pkg.v3", "pkg.v2.v3", "a.v2.3", "yaml/v2", "user/pkg/v3", "pkg.v1/v12", "yaml.v2/v2", "yaml/v1", "yaml/v2.0", "v3", "yaml.v2-beta", "yaml.v2-stable", "yaml.v2a", "yaml.v2-"}
var firstElems = []string{"example.com", "github.com", "golang.org", "rsc.io", "a.b", "x-y.z", "9.9", "a.b.c", "localhost.localdomain"}
var firstElemsBad = []string{"-a.b", "nodot", "Example.com", "a..b", "a_b.c", "a~b.c", "a.b.", ".a.b", "", "a+b.c", "é.com", "con.com", "a.con", "x.y~1"}

// PathElem draws one path element; hostility 0 = always module-valid, 1 = mixed, 2 = mostly odd.
func PathElem(t *rapid.T, hostility int, label string) string {
	k := rapid.IntRange(0, 99).Draw(t, label+"ek")
	if hostility == 0 {
		if k < 70 {
			return pick(t, plainWords, label)
		}
		return pick(t, upperWords, label)
	}
	switch {
	case k < 30:
		return pick(t, plainWords, label)
	case k < 40:
		return pick(t, upperWords, label)
	case k < 52:
		return pick(t, reservedish, label)
	case k < 62:
		if Chance(t, 30, label+"longtilde") {
			// a digit run after the tilde that does not fit in 64 (or 63) bits, or only just does
			run := []string{"9999999999999999999", "99999999999999999999", "18446744073709551615", "18446744073709551616", "9223372036854775807", "9223372036854775808", "100000000000000000000", "7777777777777777777777777", "000000000000000000000000000001"}[Uniform(t, 9, label+"run")]
			return pick(t, plainWords, label) + "~" + run + []string{"", "", ".txt", ".a.b"}[Uniform(t, 4, label+"runext")]
		}
		return pick(t, tildeForms, label)
	case k < 70:
		return pick(t, dotForms, label)
	case k < 76:
		return pick(t, unicodeForms, label)
	case k < 90:
		// a word with one punctuation character at first/middle/last position
		w := pick(t, plainWords, label)
		c := string(punctAll[rapid.IntRange(0, len(punctAll)-1).Draw(t, label+"pc")])
		switch rapid.IntRange(0, 2).Draw(t, label+"pp") {
		case 0:
			return c + w
		case 1:
			return w + c
		}
		return w[:len(w)/2] + c + w[len(w)/2:]
	case k < 94:
		return pick(t, majorTails, label)
	case k < 97:
		return ""
	}
	return rapid.StringN(0, 6, 12).Draw(t, label+"arb")
}

func pick(t *rapid.T, l []string, label string) string {
	return l[rapid.IntRange(0, len(l)-1).Draw(t, label+"pick")]
}

// PathString draws a path-like string for the given intent:
// intent 0 = module-ish (domain first element), 1 = import/file-ish (any first element).
func PathString(t *rapid.T, intent int, hostile bool) string {
	var elems []string
	gopkg := false
	if intent == 0 {
		k := rapid.IntRange(0, 99).Draw(t, "fk")
		switch {
		case k < 12:
			elems = append(elems, "gopkg.in")
			gopkg = true
		case k < 85 || !hostile:
			elems = append(elems, pick(t, firstElems, "first"))
		default:
			elems = append(elems, pick(t, firstElemsBad, "firstbad"))
		}
	}
	n := rapid.IntRange(0, 4).Draw(t, "nelem")
	if Chance(t, 3, "manyelems") {
		n = rapid.IntRange(20, 60).Draw(t, "nelem2")
	}
	if intent != 0 && n == 0 {
		n = 1
	}
	for i := 0; i < n; i++ {
		h := 0
		if hostile && rapid.IntRange(0, 2).Draw(t, "eh") == 0 {
			h = 1
		}
		el := PathElem(t, h, "e")
		if Chance(t, 2, "longelem") {
			el += strings.Repeat("x", rapid.IntRange(100, 600).Draw(t, "elemlen"))
		}
		elems = append(elems, el)
	}
	if gopkg {
		elems = append(elems, pick(t, gopkgTails, "gtail"))
	} else if rapid.IntRange(0, 99).Draw(t, "hastail") < 35 {
		if hostile {
			elems = append(elems, pick(t, majorTails, "tail"))
		} else {
			elems = append(elems, pick(t, []string{"v2", "v3", "v10", "v22"}, "tail"))
		}
	}
	s := strings.Join(elems, "/")
	if hostile {
		switch rapid.IntRange(0, 29).Draw(t, "wrap") {
		case 0:
			s = "/" + s
		case 1:
			s += "/"
		case 2:
			s = strings.Replace(s, "/", "//", 1)
		case 3:
			s = "-" + s
		case 4:
			s += "\xff"
		}
	}
	return s
}

var pathMutBytes = []string{"/", ".", "~", "1", "0", "v", "-", "+", "!", "A", "a", "_", " ", "é", "\xff", "\x00", "\\", ":", "*", "?", "//", "..", "~1", "/v2", ".v2", "-unstable"}

// PathLike draws a path from the grammar, mutated in about a third of the cases.
func PathLike(t *rapid.T) string {
	intent := rapid.IntRange(0, 1).Draw(t, "intent")
	hostile := rapid.IntRange(0, 3).Draw(t, "hostile") != 0
	s := PathString(t, intent, hostile)
	switch rapid.IntRange(0, 9).Draw(t, "mut") {
	case 0, 1:
		s = MutateString(t, s, 1, pathMutBytes)
	case 2:
		s = MutateString(t, s, 2, pathMutBytes)
	case 3:
		if rapid.IntRange(0, 9).Draw(t, "arb") == 0 {
			s = rapid.String().Draw(t, "arbs")
		}
	}
	return s
}

// ValidModulePath draws a path that is (by construction) a valid module path, rich in upper case.
func ValidModulePath(t *rapid.T) string {
	elems := []string{pick(t, firstElems, "first")}
	if rapid.IntRange(0, 9).Draw(t, "gopkg") == 0 {
		elems = []string{"gopkg.in"}
		n := rapid.IntRange(0, 1).Draw(t, "n")
		for i := 0; i < n; i++ {
			elems = append(elems, PathElem(t, 0, "e"))
		}
		elems = append(elems, pick(t, []string{"yaml.v2", "Yaml.v3", "check.v1", "pkg.v0", "x.v1-unstable", "ABC.v12"}, "gt"))
		return strings.Join(elems, "/")
	}
	n := rapid.IntRange(0, 4).Draw(t, "n")
	for i := 0; i < n; i++ {
		elems = append(elems, PathElem(t, 0, "e"))
	}
	if rapid.IntRange(0, 3).Draw(t, "tail") == 0 {
		elems = append(elems, pick(t, []string{"v2", "v3", "v10", "v22"}, "tail"))
	}
	return strings.Join(elems, "/")
}
