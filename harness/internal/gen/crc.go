package gen

import "hash/crc32"

// CRCTwin returns content of the same length as a (at least 8 bytes) that differs from a and has the
// same IEEE CRC-32: the first len(a)-4 bytes are a's with one byte changed, the last four bytes are
// solved for. It returns nil if a is too short.
func CRCTwin(a []byte) []byte {
	if len(a) < 8 {
		return nil
	}
	b := append([]byte(nil), a...)
	b[0] ^= 0x01
	want := crc32.ChecksumIEEE(a) ^ 0xffffffff // internal register after all of a
	reg := crc32.ChecksumIEEE(b[:len(b)-4]) ^ 0xffffffff
	tab := crc32.IEEETable
	var rev [256]byte
	for i, v := range tab {
		rev[v>>24] = byte(i)
	}
	// find the four table indexes, last byte first
	var idx [4]byte
	w := want
	for i := 3; i >= 0; i-- {
		j := rev[w>>24]
		idx[i] = j
		w = (w ^ tab[j]) << 8
	}
	for i := 0; i < 4; i++ {
		b[len(b)-4+i] = idx[i] ^ byte(reg)
		reg = tab[idx[i]] ^ (reg >> 8)
	}
	if crc32.ChecksumIEEE(b) != crc32.ChecksumIEEE(a) || string(a) == string(b) {
		return nil
	}
	return b
}
