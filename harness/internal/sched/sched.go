// Package sched is a harness-owned scheduler for operations that several
// goroutines of the code under test want to perform. Every operation parks
// until the scheduler releases it; operations then run one at a time, in an
// order chosen by generated data (exploration) or dictated by a recorded
// history (replay).
package sched

import (
	"fmt"
	"runtime"
	"sort"
	"strings"
	"sync"
	"time"
)

type req struct {
	id  string
	ch  chan struct{}
	seq int // arrival order
}

// Newest is the decision value that releases the request that arrived last, which is as a rule the next
// operation of the goroutine that was released last: runs of it let one goroutine go a long way while the
// others stay parked where they are.
const Newest = 64

type Sched struct {
	mu       sync.Mutex
	pending  map[string]*req
	counts   map[string]int
	running  int
	arrivals int

	choices []int
	next    int
	replay  []string

	History   []string
	Contended int // decisions taken with >= 2 requests pending
	MaxWidth  int
	Err       error // hang, or replay divergence

	Grace time.Duration // how long the pending set must be stable before a decision
	Hang  time.Duration // how long to wait for progress before giving up

	// Deadlock is set (together with Err) when the run ended because nothing can move any more: no operation is
	// pending or running, the workers have not finished, and every goroutine that is inside the code under test
	// (its stack holds a frame of the package named by Workers) is parked on a channel, mutex, condition or wait
	// group, in two samples a second apart. Nothing outside those goroutines can wake them (the harness only acts
	// through operations), so this is an observation about the schedule, not a time limit.
	Deadlock bool
	Workers  string // substring of the stack frames of the code under test; "" disables deadlock detection
}

var blockedStates = []string{"chan receive", "chan send", "select", "semacquire", "sync.Mutex.Lock", "sync.RWMutex", "sync.Cond.Wait", "sync.WaitGroup.Wait"}

// allBlocked reports whether at least one goroutine is inside the code under test and all of those are parked.
func (s *Sched) allBlocked() (bool, string) {
	buf := make([]byte, 4<<20)
	buf = buf[:runtime.Stack(buf, true)]
	n, summary := 0, ""
	for _, g := range strings.Split(string(buf), "\n\n") {
		if !strings.Contains(g, s.Workers) || strings.Contains(g, "sched.(*Sched).allBlocked") {
			continue
		}
		i, j := strings.Index(g, "["), strings.Index(g, "]")
		if !strings.HasPrefix(g, "goroutine ") || i < 0 || j < i {
			return false, ""
		}
		state, blocked := g[i+1:j], false
		for _, b := range blockedStates {
			if strings.HasPrefix(state, b) {
				blocked = true
			}
		}
		if !blocked {
			return false, ""
		}
		n++
		if n <= 3 {
			lines := strings.Split(g, "\n")
			if len(lines) > 1 {
				summary += state + " in " + strings.TrimSpace(lines[1]) + "; "
			}
		}
	}
	return n > 0, fmt.Sprintf("%d goroutines parked inside the code under test (%s...)", n, summary)
}

// New makes an exploring scheduler: decision k releases pending[choices[k] % len(pending)]
// (pending requests ordered by identity).
func New(choices []int) *Sched {
	return &Sched{pending: map[string]*req{}, counts: map[string]int{}, choices: choices, Grace: 300 * time.Microsecond, Hang: 20 * time.Second}
}

// NewReplay makes a scheduler that releases requests strictly in the recorded order.
func NewReplay(history []string) *Sched {
	s := New(nil)
	s.replay = history
	return s
}

// Do parks the calling goroutine under the identity base#occurrence until the scheduler
// releases it, runs op while no other released operation runs, and returns.
func (s *Sched) Do(base string, op func()) {
	s.mu.Lock()
	n := s.counts[base]
	s.counts[base]++
	s.arrivals++
	r := &req{id: fmt.Sprintf("%s#%d", base, n), ch: make(chan struct{}), seq: s.arrivals}
	s.pending[r.id] = r
	s.mu.Unlock()
	<-r.ch
	defer func() {
		s.mu.Lock()
		s.running--
		s.mu.Unlock()
	}()
	op()
}

func (s *Sched) snapshot() (running, arrivals, npending int) {
	s.mu.Lock()
	defer s.mu.Unlock()
	return s.running, s.arrivals, len(s.pending)
}

// waitStable waits until no operation runs and no new request has arrived for the grace period.
// It returns false if finished() became true with nothing pending, or on hang.
func (s *Sched) waitStable(finished func() bool) bool {
	deadline := time.Now().Add(s.Hang)
	var stableSince time.Time
	last := -1
	var idleSince time.Time
	firstSample := false
	for {
		running, arrivals, np := s.snapshot()
		if running == 0 && np == 0 && finished() {
			return false
		}
		now := time.Now()
		if running == 0 && np == 0 && s.Workers != "" {
			if idleSince.IsZero() {
				idleSince = now
			}
			if idle := now.Sub(idleSince); idle > 1500*time.Millisecond && !firstSample || idle > 2500*time.Millisecond {
				if ok, what := s.allBlocked(); ok && firstSample {
					if !finished() {
						s.Deadlock = true
						s.Err = fmt.Errorf("deadlock: no operation pending or running, workers not finished, %s", what)
						return false
					}
				} else if ok {
					firstSample = true
				} else {
					idleSince, firstSample = time.Time{}, false
				}
			}
		} else {
			idleSince, firstSample = time.Time{}, false
		}
		if running == 0 && arrivals == last && np > 0 {
			if stableSince.IsZero() {
				stableSince = now
			} else if now.Sub(stableSince) >= s.Grace {
				return true
			}
		} else {
			stableSince = time.Time{}
			last = arrivals
		}
		if now.After(deadline) {
			s.Err = fmt.Errorf("no progress for %v: running=%d pending=%d", s.Hang, running, np)
			return false
		}
		runtime.Gosched()
		time.Sleep(20 * time.Microsecond)
	}
}

func (s *Sched) release(id string) {
	s.mu.Lock()
	r := s.pending[id]
	delete(s.pending, id)
	s.running++
	s.History = append(s.History, id)
	s.mu.Unlock()
	close(r.ch)
}

// Run drives the goroutines until finished() reports that all of them are done.
func (s *Sched) Run(finished func() bool) {
	if s.replay != nil {
		s.runReplay(finished)
		return
	}
	for s.waitStable(finished) {
		s.mu.Lock()
		ids := make([]string, 0, len(s.pending))
		newest, newestSeq := "", -1
		for id, r := range s.pending {
			ids = append(ids, id)
			if r.seq > newestSeq {
				newest, newestSeq = id, r.seq
			}
		}
		s.mu.Unlock()
		sort.Strings(ids)
		if len(ids) >= 2 {
			s.Contended++
		}
		if len(ids) > s.MaxWidth {
			s.MaxWidth = len(ids)
		}
		k := 0
		if s.next < len(s.choices) {
			k = s.choices[s.next] % len(ids)
			if k < 0 {
				k = -k
			}
			if s.choices[s.next] == Newest {
				for i, id := range ids {
					if id == newest {
						k = i
					}
				}
			}
		}
		s.next++
		s.release(ids[k])
	}
	s.drain()
}

func (s *Sched) runReplay(finished func() bool) {
	for _, id := range s.replay {
		deadline := time.Now().Add(s.Hang)
		for {
			s.mu.Lock()
			_, ok := s.pending[id]
			running := s.running
			s.mu.Unlock()
			if ok && running == 0 {
				break
			}
			if time.Now().After(deadline) {
				s.Err = fmt.Errorf("replay diverged: request %q never appeared", id)
				s.drain()
				return
			}
			runtime.Gosched()
			time.Sleep(20 * time.Microsecond)
		}
		s.release(id)
	}
	// whatever is left runs in identity order
	for s.waitStable(finished) {
		s.mu.Lock()
		ids := make([]string, 0, len(s.pending))
		for id := range s.pending {
			ids = append(ids, id)
		}
		s.mu.Unlock()
		sort.Strings(ids)
		s.release(ids[0])
	}
	s.drain()
}

// drain releases everything still parked (after an error) so that goroutines can finish.
func (s *Sched) drain() {
	for i := 0; i < 2000; i++ {
		s.mu.Lock()
		var ids []string
		for id := range s.pending {
			ids = append(ids, id)
		}
		s.mu.Unlock()
		if len(ids) == 0 {
			time.Sleep(200 * time.Microsecond)
			if _, _, np := s.snapshot(); np == 0 {
				return
			}
			continue
		}
		sort.Strings(ids)
		s.release(ids[0])
	}
}
