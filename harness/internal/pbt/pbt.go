// Package pbt is the small framework shared by all property packages.
//
// A property package declares "subs": a generator (rapid -> Case value that
// can be rendered as JSON) and a check (Case -> Result). The same check runs
// under rapid (generated + shrunk), under replay of a saved JSON case (no
// rapid involved), and under Go's native fuzzer (rapid.MakeFuzz decoding).
//
// Environment (set by /verif/check):
//
//	VERIF_PROP    property id, e.g. C04
//	VERIF_TIER    quick | thorough
//	VERIF_SEED    integer seed (0 is remapped)
//	VERIF_SHARD   shard index for thorough runs
//	VERIF_SCALE   float multiplier on case counts (development only)
//	VERIF_OUT     directory for stats and failing-case files of this process
//	VERIF_REPLAY  file or directory of saved cases for TestReplay
//	VERIF_ONLY    comma list of sub names to run (development only)
package pbt

import (
	"bytes"
	"crypto/sha256"
	"encoding/binary"
	"encoding/hex"
	"encoding/json"
	"flag"
	"fmt"
	"hash/fnv"
	"os"
	"path/filepath"
	"runtime/debug"
	"sort"
	"strconv"
	"strings"
	"sync"
	"testing"
	"time"

	"pgregory.net/rapid"
)

// Result is what a check reports about one case.
type Result struct {
	NonTrivial bool
	Classes    []string // histogram labels
	Key        string   // distinctness key; empty = JSON of the case
	Fail       *Failure
	Skip       bool // case was outside the property's domain (counted separately)
}

// Failure describes an oracle failure.
type Failure struct {
	Sig string // short stable signature of what failed (oracle clause)
	Msg string
}

// Failf builds a failing result.
func Failf(sig, format string, args ...any) *Failure {
	return &Failure{Sig: sig, Msg: fmt.Sprintf(format, args...)}
}

// Sub is one generated check of a property.
type Sub interface {
	SubName() string
	run(t *testing.T)
	replay(t *testing.T, raw json.RawMessage, file string)
	fuzz(f *testing.F)
}

type sub[C any] struct {
	name            string
	quick, thorough int
	gen             func(*rapid.T) C
	check           func(C) Result
}

// New declares a sub. quick/thorough are case counts (thorough is per shard).
func New[C any](name string, quick, thorough int, gen func(*rapid.T) C, check func(C) Result) Sub {
	return &sub[C]{name: name, quick: quick, thorough: thorough, gen: gen, check: check}
}

func (s *sub[C]) SubName() string { return s.name }

var (
	propID = envOr("VERIF_PROP", "C00")
	tier   = envOr("VERIF_TIER", "quick")
	outDir = envOr("VERIF_OUT", "")
)

func envOr(k, d string) string {
	if v := os.Getenv(k); v != "" {
		return v
	}
	return d
}

// Tier reports the tier of this run.
func Tier() string { return tier }

// Thorough reports whether this is a thorough run.
func Thorough() bool { return tier == "thorough" }

func seedFor(name string) uint64 {
	base, _ := strconv.ParseUint(envOr("VERIF_SEED", "1"), 10, 64)
	shard, _ := strconv.ParseUint(envOr("VERIF_SHARD", "0"), 10, 64)
	h := fnv.New64a()
	h.Write([]byte(name))
	s := base*1000003 + shard*7919 + h.Sum64()%1000000007
	if s == 0 {
		s = 1
	}
	return s
}

func countFor(quick, thorough int) int {
	n := quick
	if tier == "thorough" {
		n = thorough
	}
	if sc := os.Getenv("VERIF_SCALE"); sc != "" {
		f, err := strconv.ParseFloat(sc, 64)
		if err == nil && f > 0 {
			n = int(float64(n) * f)
		}
	}
	if n < 1 {
		n = 1
	}
	return n
}

func selected(name string) bool {
	only := os.Getenv("VERIF_ONLY")
	if only == "" {
		return true
	}
	for _, s := range strings.Split(only, ",") {
		if s == name {
			return true
		}
	}
	return false
}

// guard runs check, converting a panic of the code under test (or the oracle)
// into a failure so that it is reported with a replay file. A case that does
// not finish within the watchdog period (default 300 s; cases take micro- to
// milliseconds) is reported as a hang: the case is saved, statistics are
// flushed and the process exits, because the stuck goroutine cannot be stopped
// and shrinking would only stack up more of them.
func guard[C any](name string, check func(C) Result, c C) Result {
	done := make(chan Result, 1)
	go func() {
		var res Result
		defer func() {
			if r := recover(); r != nil {
				res = Result{NonTrivial: true, Fail: Failf("panic", "panic: %v\n%s", r, debug.Stack())}
			}
			done <- res
		}()
		res = check(c)
	}()
	timer := time.NewTimer(caseTimeout())
	defer timer.Stop()
	slow := time.NewTimer(caseTimeout() / 10)
	defer slow.Stop()
	select {
	case res := <-done:
		return res
	case <-slow.C:
		// not a verdict: a note for whoever maintains the generators (a case should take milliseconds)
		fmt.Printf("VERIF-SLOW sub=%s a case is taking more than %v\n", name, caseTimeout()/10)
	}
	select {
	case res := <-done:
		return res
	case <-timer.C:
		f := Failf("hang", "case did not finish within %v", caseTimeout())
		raw := render(c)
		statsFor(name).record(raw, Result{NonTrivial: true, Fail: f})
		path := saveFailure(name, raw, f)
		fmt.Printf("VERIF-FAIL sub=%s sig=hang replay=%s\n", name, path)
		flushStats()
		os.Exit(3)
	}
	panic("unreachable")
}

func caseTimeout() time.Duration {
	if v := os.Getenv("VERIF_CASE_TIMEOUT"); v != "" {
		if d, err := time.ParseDuration(v); err == nil {
			return d
		}
	}
	return 300 * time.Second
}

func (s *sub[C]) run(t *testing.T) {
	n := countFor(s.quick, s.thorough)
	flag.Set("rapid.checks", strconv.Itoa(n))
	flag.Set("rapid.seed", strconv.FormatUint(seedFor(s.name), 10))
	st := statsFor(s.name)
	st.requested += n
	rapid.Check(t, func(rt *rapid.T) {
		c := s.gen(rt)
		res := guard(s.name, s.check, c)
		raw := render(c)
		st.record(raw, res)
		if res.Fail != nil {
			path := saveFailure(s.name, raw, res.Fail)
			rt.Fatalf("VERIF-FAIL sub=%s sig=%s replay=%s\n%s", s.name, res.Fail.Sig, path, res.Fail.Msg)
		}
	})
}

func (s *sub[C]) fuzz(f *testing.F) {
	st := statsFor(s.name)
	f.Fuzz(rapid.MakeFuzz(func(rt *rapid.T) {
		c := s.gen(rt)
		res := guard(s.name, s.check, c)
		raw := render(c)
		st.record(raw, res)
		if res.Fail != nil {
			path := saveFailure(s.name, raw, res.Fail)
			rt.Fatalf("VERIF-FAIL sub=%s sig=%s replay=%s\n%s", s.name, res.Fail.Sig, path, res.Fail.Msg)
		}
	}))
}

func (s *sub[C]) replay(t *testing.T, raw json.RawMessage, file string) {
	var c C
	dec := json.NewDecoder(bytes.NewReader(raw))
	if err := dec.Decode(&c); err != nil {
		t.Fatalf("replay %s: cannot decode case: %v", file, err)
	}
	res := guard(s.name, s.check, c)
	st := statsFor("replay:" + s.name)
	st.record(render(c), res)
	if res.Fail != nil {
		emitFail(s.name, res.Fail, CaseHash(raw), file)
		t.Errorf("replay %s failed: sig=%s %s", file, res.Fail.Sig, res.Fail.Msg)
	}
}

func render(c any) []byte {
	b, err := json.Marshal(c)
	if err != nil {
		panic("pbt: case not renderable: " + err.Error())
	}
	return b
}

// CaseHash is the identity of a case: sha256 of its compacted JSON, 16 hex digits.
func CaseHash(raw []byte) string {
	var buf bytes.Buffer
	if err := json.Compact(&buf, raw); err != nil {
		buf.Reset()
		buf.Write(raw)
	}
	h := sha256.Sum256(buf.Bytes())
	return hex.EncodeToString(h[:8])
}

// SavedCase is the on-disk replay format.
type SavedCase struct {
	Property string          `json:"property"`
	Sub      string          `json:"sub"`
	Sig      string          `json:"sig,omitempty"`
	Msg      string          `json:"msg,omitempty"`
	Case     json.RawMessage `json:"case"`
}

var failMu sync.Mutex

// saveFailure writes the failing case (overwriting the previous one of this
// sub, so that the file left behind is the shrunk case) and emits the
// machine-readable line.
func saveFailure(name string, raw []byte, f *Failure) string {
	failMu.Lock()
	defer failMu.Unlock()
	path := "(no VERIF_OUT)"
	if outDir != "" {
		shard := envOr("VERIF_SHARD", "0")
		path = filepath.Join(outDir, fmt.Sprintf("fail-%s-%s-s%s.json", propID, name, shard))
		sc := SavedCase{Property: propID, Sub: name, Sig: f.Sig, Msg: truncate(f.Msg, 4000), Case: raw}
		b, _ := json.MarshalIndent(sc, "", " ")
		os.WriteFile(path, b, 0o644)
	}
	emitFail(name, f, CaseHash(raw), path)
	return path
}

func emitFail(name string, f *Failure, hash, path string) {
	rec := map[string]string{"property": propID, "sub": name, "sig": f.Sig, "case": hash, "replay": path, "msg": truncate(f.Msg, 600)}
	b, _ := json.Marshal(rec)
	// One line on stdout; the driver takes the LAST line per (sub, shard) as the shrunk one.
	fmt.Printf("\nVERIF-FAIL-JSON %s\n", b)
	if outDir != "" {
		fh, err := os.OpenFile(filepath.Join(outDir, "fails-"+envOr("VERIF_SHARD", "0")+".jsonl"), os.O_APPEND|os.O_CREATE|os.O_WRONLY, 0o644)
		if err == nil {
			fh.Write(append(b, '\n'))
			fh.Close()
		}
	}
}

func truncate(s string, n int) string {
	if len(s) <= n {
		return s
	}
	return s[:n] + "…"
}

// RunAll runs every selected sub as a subtest.
func RunAll(t *testing.T, subs []Sub) {
	for _, s := range subs {
		if !selected(s.SubName()) {
			continue
		}
		s := s
		t.Run(s.SubName(), func(t *testing.T) { s.run(t) })
	}
}

// Replay re-executes saved cases (VERIF_REPLAY: a file or a directory) without rapid.
func Replay(t *testing.T, subs []Sub) {
	target := os.Getenv("VERIF_REPLAY")
	if target == "" {
		t.Skip("VERIF_REPLAY not set")
	}
	var files []string
	if fi, err := os.Stat(target); err == nil && fi.IsDir() {
		m, _ := filepath.Glob(filepath.Join(target, "*.json"))
		sort.Strings(m)
		files = m
	} else if err == nil {
		files = []string{target}
	} else {
		t.Skipf("no replay target %s", target)
	}
	byName := map[string]Sub{}
	for _, s := range subs {
		byName[s.SubName()] = s
	}
	for _, f := range files {
		b, err := os.ReadFile(f)
		if err != nil {
			t.Fatalf("replay: %v", err)
		}
		var sc SavedCase
		if err := json.Unmarshal(b, &sc); err != nil {
			t.Fatalf("replay %s: %v", f, err)
		}
		s, ok := byName[sc.Sub]
		if !ok {
			t.Fatalf("replay %s: unknown sub %q", f, sc.Sub)
		}
		s.replay(t, sc.Case, f)
	}
}

// Fuzz attaches sub name's generator+check as a native fuzz target.
func Fuzz(f *testing.F, subs []Sub, name string) {
	for _, s := range subs {
		if s.SubName() == name {
			s.fuzz(f)
			return
		}
	}
	f.Fatalf("no sub %q", name)
}

// ---------------------------------------------------------------------------
// statistics

type stats struct {
	mu         sync.Mutex
	name       string
	requested  int
	evals      int
	nontrivial int
	skipped    int
	fails      int
	classes    map[string]int
	distinct   map[uint64]struct{}
	samples    []json.RawMessage
	first      json.RawMessage // fallback sample when no non-trivial case was small enough
	seen       int             // nontrivial seen, for reservoir
}

var (
	statsMu  sync.Mutex
	allStats = map[string]*stats{}
)

func statsFor(name string) *stats {
	statsMu.Lock()
	defer statsMu.Unlock()
	st, ok := allStats[name]
	if !ok {
		st = &stats{name: name, classes: map[string]int{}, distinct: map[uint64]struct{}{}}
		allStats[name] = st
	}
	return st
}

const maxSamples = 4

func (st *stats) record(raw []byte, res Result) {
	st.mu.Lock()
	defer st.mu.Unlock()
	st.evals++
	if res.Skip {
		st.skipped++
	}
	if res.Fail != nil {
		st.fails++
	}
	for _, c := range res.Classes {
		st.classes[c]++
	}
	if st.evals == 1 && len(raw) <= 3000 {
		st.first = append(json.RawMessage(nil), raw...)
	}
	if !res.NonTrivial {
		return
	}
	st.nontrivial++
	h := fnv.New64a()
	if res.Key != "" {
		h.Write([]byte(res.Key))
	} else {
		h.Write(raw)
	}
	k := h.Sum64()
	if _, dup := st.distinct[k]; dup {
		return
	}
	st.distinct[k] = struct{}{}
	// deterministic reservoir keyed by hash value: keep the samples with the smallest hashes
	// among the first occurrences that are reasonably small to print.
	if len(raw) <= 3000 {
		st.seen++
		if len(st.samples) < maxSamples {
			st.samples = append(st.samples, append(json.RawMessage(nil), raw...))
		} else if k%uint64(st.seen) < maxSamples {
			st.samples[k%maxSamples] = append(json.RawMessage(nil), raw...)
		}
	}
}

// Count lets ad-hoc tests (enumerations, race runs) add to the evidence.
func Count(name string, raw any, res Result) {
	statsFor(name).record(render(raw), res)
}

type statsFile struct {
	Sub        string            `json:"sub"`
	Requested  int               `json:"requested"`
	Evals      int               `json:"evaluations"`
	NonTrivial int               `json:"nontrivial"`
	Skipped    int               `json:"skipped"`
	Fails      int               `json:"fails"`
	Distinct   int               `json:"distinct_nontrivial"`
	Classes    map[string]int    `json:"classes"`
	Samples    []json.RawMessage `json:"samples"`
	Exhaustive bool              `json:"exhaustive,omitempty"`
}

var exhaustive = map[string]bool{}

// MarkExhaustive records that a sub enumerated its (stated) finite space completely.
func MarkExhaustive(name string) {
	statsMu.Lock()
	exhaustive[name] = true
	statsMu.Unlock()
}

func flushStats() {
	if outDir == "" {
		return
	}
	shard := envOr("VERIF_SHARD", "0")
	tag := envOr("VERIF_RUNTAG", "gen")
	statsMu.Lock()
	defer statsMu.Unlock()
	var out []statsFile
	var names []string
	for n := range allStats {
		names = append(names, n)
	}
	sort.Strings(names)
	for _, n := range names {
		st := allStats[n]
		if st.evals == 0 {
			continue
		}
		if len(st.samples) == 0 && st.first != nil {
			st.samples = append(st.samples, st.first)
		}
		out = append(out, statsFile{Sub: n, Requested: st.requested, Evals: st.evals, NonTrivial: st.nontrivial,
			Skipped: st.skipped, Fails: st.fails, Distinct: len(st.distinct), Classes: st.classes, Samples: st.samples,
			Exhaustive: exhaustive[n]})
		// sidecar with the distinct hashes for cross-shard merging
		buf := make([]byte, 0, 8*len(st.distinct))
		for k := range st.distinct {
			buf = binary.LittleEndian.AppendUint64(buf, k)
		}
		os.WriteFile(filepath.Join(outDir, fmt.Sprintf("hashes-%s-%s-%s.bin", tag, shard, sanitize(n))), buf, 0o644)
	}
	b, _ := json.Marshal(out)
	os.WriteFile(filepath.Join(outDir, fmt.Sprintf("stats-%s-%s.json", tag, shard)), b, 0o644)
}

func sanitize(s string) string {
	return strings.Map(func(r rune) rune {
		if r >= 'a' && r <= 'z' || r >= 'A' && r <= 'Z' || r >= '0' && r <= '9' || r == '-' || r == '_' {
			return r
		}
		return '_'
	}, s)
}

// Main is called from TestMain of each property package.
func Main(m *testing.M) {
	if dir := os.Getenv("VERIF_MERGE_DIR"); dir != "" {
		if err := mergeEvidence(dir); err != nil {
			fmt.Fprintln(os.Stderr, "merge:", err)
			os.Exit(2)
		}
		os.Exit(0)
	}
	code := m.Run()
	flushStats()
	os.Exit(code)
}

// ReportFuzz reports a failure found by a hand-written native fuzz target
// (one that decodes the fuzzer's bytes itself instead of going through rapid).
func ReportFuzz(t *testing.T, sub string, c any, f *Failure) {
	path := saveFailure(sub, render(c), f)
	t.Fatalf("VERIF-FAIL sub=%s sig=%s replay=%s\n%s", sub, f.Sig, path, f.Msg)
}

// Shard returns this process's shard index and the number of shards.
func Shard() (int, int) {
	s, _ := strconv.Atoi(envOr("VERIF_SHARD", "0"))
	n, _ := strconv.Atoi(envOr("VERIF_NSHARDS", "1"))
	if n < 1 {
		n = 1
	}
	return s % n, n
}

// ReportEnum reports a failure found by an enumeration test (a plain Go test that
// walks a finite space and calls a sub's check directly).
func ReportEnum(t *testing.T, sub string, c any, f *Failure) {
	path := saveFailure(sub, render(c), f)
	t.Errorf("VERIF-FAIL sub=%s sig=%s replay=%s\n%s", sub, f.Sig, path, f.Msg)
}

// RenderSaved renders a case in the replay file format.
func RenderSaved(prop, sub string, c any) []byte {
	sc := SavedCase{Property: prop, Sub: sub, Case: render(c)}
	b, _ := json.MarshalIndent(sc, "", " ")
	return b
}
