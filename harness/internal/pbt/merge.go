package pbt

import (
	"encoding/binary"
	"encoding/json"
	"fmt"
	"os"
	"path/filepath"
	"sort"
	"strconv"
	"strings"
)

var (
	ruleText    string
	assumptions []string
)

// Describe sets the evidence "rule" text and the assumptions of a property package.
func Describe(rule string, assume ...string) {
	ruleText = rule
	assumptions = assume
}

type subEvidence struct {
	Requested  int            `json:"requested"`
	Evals      int            `json:"evaluations"`
	NonTrivial int            `json:"nontrivial"`
	Distinct   int            `json:"distinct_nontrivial"`
	Skipped    int            `json:"skipped_out_of_domain"`
	Fails      int            `json:"failing_executions_incl_shrinking"`
	Classes    map[string]int `json:"classes,omitempty"`
	Exhaustive bool           `json:"exhaustive,omitempty"`
}

// mergeEvidence reads all stats-*.json / hashes-*.bin in dir and writes the
// evidence file named by VERIF_EVIDENCE.
func mergeEvidence(dir string) error {
	files, _ := filepath.Glob(filepath.Join(dir, "stats-*.json"))
	sort.Strings(files)
	subs := map[string]*subEvidence{}
	samples := []any{}
	sampleCount := map[string]int{}
	for _, f := range files {
		b, err := os.ReadFile(f)
		if err != nil {
			return err
		}
		var sf []statsFile
		if err := json.Unmarshal(b, &sf); err != nil {
			return fmt.Errorf("%s: %v", f, err)
		}
		for _, s := range sf {
			e := subs[s.Sub]
			if e == nil {
				e = &subEvidence{Classes: map[string]int{}}
				subs[s.Sub] = e
			}
			e.Requested += s.Requested
			e.Evals += s.Evals
			e.NonTrivial += s.NonTrivial
			e.Skipped += s.Skipped
			e.Fails += s.Fails
			e.Exhaustive = e.Exhaustive || s.Exhaustive
			for k, v := range s.Classes {
				e.Classes[k] += v
			}
			for _, sm := range s.Samples {
				if sampleCount[s.Sub] < 2 {
					sampleCount[s.Sub]++
					samples = append(samples, map[string]any{"sub": s.Sub, "case": sm})
				}
			}
		}
	}
	// distinct across shards: union of hash sets per sub
	total := 0
	evals := 0
	allExh := len(subs) > 0
	for name, e := range subs {
		set := map[uint64]struct{}{}
		hf, _ := filepath.Glob(filepath.Join(dir, "hashes-*-"+sanitize(name)+".bin"))
		for _, f := range hf {
			// the glob may over-match names that share a suffix; check exact sub name
			base := strings.TrimSuffix(filepath.Base(f), ".bin")
			parts := strings.SplitN(base, "-", 4)
			if len(parts) != 4 || parts[3] != sanitize(name) {
				continue
			}
			b, err := os.ReadFile(f)
			if err != nil {
				return err
			}
			for i := 0; i+8 <= len(b); i += 8 {
				set[binary.LittleEndian.Uint64(b[i:])] = struct{}{}
			}
		}
		e.Distinct = len(set)
		total += e.Distinct
		evals += e.Evals
		if !e.Exhaustive {
			allExh = false
		}
	}
	seed, _ := strconv.ParseInt(envOr("VERIF_SEED", "1"), 10, 64)
	wall, _ := strconv.ParseFloat(envOr("VERIF_WALL", "0"), 64)
	viol, _ := strconv.Atoi(envOr("VERIF_VIOLATIONS", "0"))
	cov := map[string]any{
		"evaluations":         evals,
		"distinct_nontrivial": total,
		"rule":                ruleText,
		"samples":             samples,
		"exhaustive":          allExh,
		"per_sub":             subs,
	}
	if fx := os.Getenv("VERIF_FUZZ"); fx != "" {
		var v any
		if json.Unmarshal([]byte(fx), &v) == nil {
			cov["native_fuzz"] = v
		}
	}
	if kf := os.Getenv("VERIF_KNOWN"); kf != "" {
		var v any
		if json.Unmarshal([]byte(kf), &v) == nil {
			cov["known_findings_reproduced"] = v
		}
	}
	ev := map[string]any{
		"property_id": propID,
		"tier":        tier,
		"seed":        seed,
		"level":       envOr("VERIF_LEVEL", "exploration"),
		"coverage":    cov,
		"assumptions": assumptions,
		"wall_s":      wall,
		"violations":  viol,
	}
	b, err := json.MarshalIndent(ev, "", " ")
	if err != nil {
		return err
	}
	out := os.Getenv("VERIF_EVIDENCE")
	if out == "" {
		return fmt.Errorf("VERIF_EVIDENCE not set")
	}
	return os.WriteFile(out, append(b, '\n'), 0o644)
}
