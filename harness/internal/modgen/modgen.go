// Package modgen generates well-formed go.mod and go.work files as structured
// specifications (so that the intended directive values are known without
// parsing) and renders them to text in many layouts.
package modgen

import (
	"strconv"
	"strings"
	"unicode"

	"pgregory.net/rapid"

	"verif/harness/internal/gen"
)

// Directive is one directive line with its intended (unquoted) values.
type Directive struct {
	Verb       string
	Args       []string // logical arguments, see per-verb layout below
	Indirect   bool     // require only
	Before     []string // whole-line comment texts (without the slashes), in order
	Suffix     string   // end-of-line comment text; for require lines the part after "indirect;" if Indirect
	Blank      bool     // a blank line precedes this line (inside blocks) or this statement (top level)
	BlankAfter bool     // inside blocks: a blank line between the leading comments and the line
	Marker     int      // spelling of the indirect marker (0 = canonical "// indirect" / "// indirect; text")
	EmptyEOL   int      `json:",omitempty"` // the line has no end-of-line text but ends in comment slashes: 1 "//", 2 "// ", 3 "//\t ", 4 "//  "
	Quote      []bool   // per argument: force double quotes
	ID         int      // identity of the line, for the comment-survival checks
}

// Layout of Args:
//   module    [path]
//   go        [version]
//   toolchain [name]
//   godebug   [key, value]
//   require   [path, version]
//   exclude   [path, version]
//   replace   [oldpath, oldversion|"", newpath, newversion|""]
//   retract   [low, high]          (single version when low == high and !Interval)
//   tool      [path]
//   use       [dir]

// Stmt is a top-level statement: a single line or a block of lines with one verb.
type Stmt struct {
	Block        bool
	Verb         string
	Lines        []Directive // exactly one when !Block
	Before       []string    // block only: whole-line comments before the block
	LParenSuffix string      // block only: comment after "("
	RParenBefore []string    // block only: comments before ")"
	RParenBlank  bool        // block only: a blank line before ")" (and before its comments)
	RParenSuffix string      // block only: comment after ")"
	Blank        bool
	Interval     []bool // retract: per line, render as [low, high] even when equal
	Empty        int    `json:",omitempty"` // block with no lines at all: 1 "verb ()", 2 "verb ( )", 3 "verb (" and ")" on two lines
}

type File struct {
	Work    bool
	Stmts   []Stmt
	CRLF    bool
	NoFinal bool // no final newline
	Spaces  int  // 0 = single spaces, 1 = tabs, 2 = multiple spaces
	After   []string
	TrailWS int `json:",omitempty"` // >0: two lines in three (blank ones too) end in blanks: 1 a space, 2 a tab, 3 "  \t "
}

// ---------------------------------------------------------------------------
// pools

type ModPool struct {
	Path     string
	Versions []string // canonical versions valid for the path
	Loose    []string // non-canonical spellings a canonicalising fixer maps into Versions' format
}

var Mods = []ModPool{
	// (v1.10.2 / v1.2.10 and v1.10.0 / v1.9.10: equal length, different digit grouping, opposite lexical and semantic order)
	{"example.com/a", []string{"v1.0.0", "v1.2.3", "v0.1.0", "v1.0.0-rc.1", "v2.0.0+incompatible", "v0.0.0-20200101000000-abcdefabcdef", "v1.2.3+incompatible", "v1.10.2", "v1.2.10"}, []string{"v1", "v1.2", "v1.0.0+meta"}},
	{"example.com/b", []string{"v1.0.0", "v1.10.0", "v1.9.0", "v0.0.1", "v1.10.0+incompatible", "v1.9.10"}, []string{"v1.9", "v0"}},
	{"example.com/a/v2", []string{"v2.0.0", "v2.1.0", "v2.0.0-alpha"}, []string{"v2", "v2.1"}},
	{"gopkg.in/yaml.v2", []string{"v2.4.0", "v2.2.8"}, []string{"v2.4"}},
	{"gopkg.in/check.v1", []string{"v1.0.0", "v0.0.0-20161208181325-20d25e280405"}, []string{"v1"}},
	{"example.com/Upper/Case", []string{"v1.0.0", "v0.9.0"}, []string{"v1.0"}},
	{"example.com/c", []string{"v1.0.0", "v1.1.0"}, []string{"v1.1"}},
	{"rsc.io/quote/v3", []string{"v3.1.0", "v3.0.0"}, []string{"v3"}},
}

// Odd paths: accepted by the strict parser in require/exclude/replace although they are not valid
// module paths; they need quoting or stress the tokenizer.
var OddMods = []ModPool{
	{"example.com/a b", []string{"v1.0.0"}, nil},
	{"example.com/é", []string{"v1.0.0"}, nil},
	{"a//b", []string{"v1.0.0"}, nil},
	{"x(y)", []string{"v0.1.0"}, nil},
	{"q[1],r", []string{"v1.0.0"}, nil},
	{"a/*c", []string{"v1.0.0"}, nil},
	{"it's", []string{"v1.0.0"}, nil},
	{"back`tick", []string{"v1.0.0"}, nil},
	{"tab\there", []string{"v1.0.0"}, nil},
	{"=>", []string{"v1.0.0"}, nil},
	{"nb\u00a0sp", []string{"v1.0.0"}, nil}, // non-ASCII spaces: not printable for the lexer, must stay quoted
	{"ideo\u3000graphic", []string{"v1.0.0"}, nil},
	{"thin\u2009narrow\u202f", []string{"v1.0.0"}, nil},
	{"zero\u200bwidth", []string{"v1.0.0"}, nil},
	{"bom\ufeffinside", []string{"v1.0.0"}, nil},
	{"line\u2028sep", []string{"v1.0.0"}, nil},
	{"soft\u00adhyphen", []string{"v1.0.0"}, nil},
	{"example.com/cafe\u0301", []string{"v1.0.0"}, nil}, // combining marks (categories Mn, Mc, Me): printable, not letters
	{"example.com/\u0915\u0903", []string{"v1.0.0"}, nil},
	{"circled\u20dd/x", []string{"v1.0.0"}, nil},
	{"back\\slash", []string{"v1.0.0"}, nil}, // backslashes, alone and together with other characters that force quoting
	{"back\\slash space", []string{"v1.0.0"}, nil},
	{"b\\s,comma", []string{"v1.0.0"}, nil},
	{"b\\q\"uote", []string{"v1.0.0"}, nil},
	{"b\\(paren)", []string{"v1.0.0"}, nil},
	{"trail\\", []string{"v1.0.0"}, nil},
	{"trail \\", []string{"v1.0.0"}, nil},  // quoted form ends in an escaped backslash right before the closing quote
	{"two\\\\", []string{"v1.0.0"}, nil},
	{"end//", []string{"v1.0.0"}, nil}, // comment markers as the very last bytes
	{"end/*", []string{"v1.0.0"}, nil},
}

// WinDirs are directory arguments accepted by the use directive of go.work (replace rejects them on
// a non-Windows system).
// MarkerDirs end in what would start a comment.
var MarkerDirs = []string{"./b//", "./vendor/*", "../forks/a//", "./x/*"}

var WinDirs = []string{"C:\\Users\\gopher\\my mods\\a", ".\\win", ".\\win dir", "..\\up,comma", "D:\\x\\"}

var Dirs = []string{"../cafe\u0301/menu", "./nb\u00a0sp", "./ideo\u3000x", "./a", "../b", "/abs/dir", "./x y", ".", "..", "./a/b", "./c", "./d", "C:/dir", "./é"}
var GoVersions = []string{"1.12", "1.20", "1.21", "1.21.0", "1.22.3", "1.23rc1", "1.9", "1.24", "1.100"}
var Toolchains = []string{"go1.21.0", "go1.22.3", "default", "go1.23rc1", "go1", "go1.21.0-custom"}
var GodebugKeys = []string{"panicnil", "http2client", "asynctimerchan", "k1", "default"}
var GodebugVals = []string{"1", "0", "go1.21", "x", ""}
var ToolPaths = []string{"example.com/a/cmd/tool", "golang.org/x/tools/cmd/stringer", "example.com/b", "./local/tool", "example.com/c/cmd"}
var CommentTexts = []string{"note", "keep this", "TODO(x): fix", "Deprecated: use example.com/new instead", "indirect", "a // b", "é日本", "x; y", "indirect; really", "", "see https://example.com/issue/1", "retracted: bad", "indirect dependency of x", "indirectly needed"}

func pick[T any](t *rapid.T, l []T, label string) T {
	return l[rapid.IntRange(0, len(l)-1).Draw(t, label)]
}

// Options steer the generator.
type Options struct {
	Work       bool
	OddPaths   bool // include paths that need quoting
	Loose      bool // include non-canonical versions (only for parses with a fixer)
	Markers    bool // give every line unique marker comments (before + suffix) instead of random ones
	DupHeavy   bool // many duplicate paths
	MaxStmts   int
	NoComments bool
}

type genState struct {
	t      *rapid.T
	o      Options
	nextID int
	module string
}

func (g *genState) comments(d *Directive) {
	if g.o.NoComments {
		return
	}
	if g.o.Markers {
		d.Before = []string{"B" + strconv.Itoa(d.ID)}
		if gen.Chance(g.t, 25, "twobefore") {
			d.Before = append(d.Before, "BB"+strconv.Itoa(d.ID))
		}
		d.Suffix = "S" + strconv.Itoa(d.ID)
		// bare lines: nothing above (so that a blank line above is the line's only "comment"), nothing after
		if gen.Chance(g.t, 25, "nobefore") {
			d.Before = nil
		}
		if gen.Chance(g.t, 20, "nosuffix") {
			d.Suffix = ""
			return
		}
		if gen.Chance(g.t, 6, "indirectword") {
			// ordinary comments that begin like the indirect marker but are not it
			d.Suffix = pick(g.t, []string{"indirect dependency ", "indirectly ", "indirect;x ", "indirect, ", "Indirect ", "indirect ; "}, "iword") + d.Suffix
		}
		return
	}
	nb := []int{0, 0, 0, 1, 1, 2}[rapid.IntRange(0, 5).Draw(g.t, "nbefore")]
	for i := 0; i < nb; i++ {
		d.Before = append(d.Before, pick(g.t, CommentTexts, "ctext"))
	}
	if rapid.IntRange(0, 3).Draw(g.t, "hassuffix") == 0 {
		d.Suffix = pick(g.t, CommentTexts, "stext")
		if d.Suffix == "" {
			d.Suffix = "s"
		}
	}
}

func (g *genState) newDirective(verb string) Directive {
	g.nextID++
	d := Directive{Verb: verb, ID: g.nextID}
	d.Blank = gen.Chance(g.t, 15, "blank")
	return d
}

func (g *genState) mod() ModPool {
	if g.o.OddPaths && gen.Chance(g.t, 20, "odd") {
		return pick(g.t, OddMods, "oddmod")
	}
	if g.o.DupHeavy {
		return Mods[rapid.IntRange(0, 3).Draw(g.t, "dupmod")]
	}
	return pick(g.t, Mods, "mod")
}

func (g *genState) version(m ModPool) string {
	if g.o.Loose && len(m.Loose) > 0 && gen.Chance(g.t, 30, "loose") {
		return pick(g.t, m.Loose, "loosev")
	}
	return pick(g.t, m.Versions, "v")
}

func (g *genState) line(verb string) Directive {
	d := g.newDirective(verb)
	t := g.t
	switch verb {
	case "module":
		d.Args = []string{g.module}
	case "go":
		d.Args = []string{pick(t, GoVersions, "gov")}
	case "toolchain":
		d.Args = []string{pick(t, Toolchains, "tc")}
	case "godebug":
		d.Args = []string{pick(t, GodebugKeys, "gk"), pick(t, GodebugVals, "gv")}
	case "require", "exclude":
		m := g.mod()
		d.Args = []string{m.Path, g.version(m)}
		if verb == "require" {
			d.Indirect = rapid.IntRange(0, 2).Draw(t, "indirect") == 0
			if d.Indirect && gen.Chance(t, 15, "markerstyle") {
				d.Marker = 1 + gen.Uniform(t, 6, "marker")
			}
		}
	case "replace":
		m := g.mod()
		old := ""
		if rapid.Bool().Draw(t, "oldv") {
			old = g.version(m)
		}
		if rapid.Bool().Draw(t, "todir") {
			d.Args = []string{m.Path, old, pick(t, Dirs, "dir"), ""}
			if g.o.OddPaths && gen.Chance(t, 8, "markerdir") {
				d.Args[2] = pick(t, MarkerDirs, "markerdir")
			}
		} else {
			n := g.mod()
			d.Args = []string{m.Path, old, n.Path, g.version(n)}
		}
	case "retract":
		m := ModPool{}
		for _, c := range Mods {
			if c.Path == g.module {
				m = c
			}
		}
		if len(m.Versions) == 0 {
			m = Mods[0]
		}
		lo := pick(t, m.Versions, "lo")
		hi := lo
		if rapid.Bool().Draw(t, "interval") {
			hi = pick(t, m.Versions, "hi")
		}
		d.Args = []string{lo, hi}
	case "tool":
		d.Args = []string{pick(t, ToolPaths, "tool")}
	case "use":
		d.Args = []string{pick(t, Dirs, "usedir")}
		if g.o.OddPaths && gen.Chance(t, 15, "windir") {
			d.Args = []string{pick(t, WinDirs, "windir")}
		}
		if g.o.OddPaths && gen.Chance(t, 8, "markerdir") {
			d.Args = []string{pick(t, MarkerDirs, "markerdir")}
		}
	}
	d.Quote = make([]bool, len(d.Args))
	for i := range d.Quote {
		d.Quote[i] = gen.Chance(t, 12, "forcequote")
	}
	g.comments(&d)
	if !g.o.NoComments && d.Suffix == "" && !d.Indirect && verb != "retract" && verb != "module" && gen.Chance(t, 6, "emptyeol") { // (not where comments carry a value: rationale, deprecation)
		d.EmptyEOL = 1 + gen.Uniform(t, 4, "emptyeolkind") // comment slashes with nothing, or only blanks, after them
	}
	if verb == "require" && IsIndirectMarker(d.Suffix) {
		d.Suffix = "note" // would change the meaning of the line
	}
	return d
}

// Gen draws a well-formed file.
func Gen(t *rapid.T, o Options) File {
	g := &genState{t: t, o: o}
	g.module = pick(t, []string{"example.com/m", "example.com/a", "example.com/a/v2", "gopkg.in/yaml.v2", "example.com/b"}, "module")
	f := File{Work: o.Work}
	f.CRLF = gen.Chance(t, 8, "crlf")
	f.NoFinal = gen.Chance(t, 8, "nofinal")
	f.Spaces = rapid.IntRange(0, 2).Draw(t, "spaces")
	max := o.MaxStmts
	if max == 0 {
		max = 9
	}
	var verbs []string
	if o.Work {
		verbs = []string{"use", "use", "use", "replace", "godebug"}
	} else {
		verbs = []string{"require", "require", "require", "exclude", "replace", "retract", "tool", "godebug"}
	}
	dropRetract := func() {
		// retract needs a module directive (documented error otherwise when a fixer is used)
		var keep []string
		for _, v := range verbs {
			if v != "retract" {
				keep = append(keep, v)
			}
		}
		verbs = keep
	}
	single := map[string]bool{}
	addSingle := func(verb string, pct int) {
		if gen.Chance(t, pct, "has"+verb) {
			single[verb] = true
		}
	}
	if !o.Work {
		addSingle("module", 90)
	}
	if !single["module"] && !o.Work {
		dropRetract()
	}
	addSingle("go", 75)
	addSingle("toolchain", 30)
	// a file made of single-line directives only (no parenthesised block anywhere)
	flat := gen.Chance(t, 12, "flat")
	order := []string{"module", "go", "toolchain"}
	for _, v := range order {
		if single[v] {
			s := Stmt{Verb: v, Lines: []Directive{g.line(v)}}
			if v == "module" && !flat && gen.Chance(t, 10, "moduleblock") {
				s.Block = true
			}
			s.Blank = gen.Chance(t, 50, "stmtblank")
			f.Stmts = append(f.Stmts, s)
		}
	}
	n := rapid.IntRange(0, max).Draw(t, "nstmts")
	for i := 0; i < n; i++ {
		verb := pick(t, verbs, "verb")
		s := Stmt{Verb: verb, Blank: gen.Chance(t, 50, "stmtblank")}
		if !flat && rapid.IntRange(0, 2).Draw(t, "isblock") != 0 {
			s.Block = true
			nl := []int{0, 1, 1, 2, 2, 3, 4, 5}[rapid.IntRange(0, 7).Draw(t, "nlines")]
			for j := 0; j < nl; j++ {
				s.Lines = append(s.Lines, g.line(verb))
				s.Interval = append(s.Interval, gen.Chance(t, 20, "eqinterval"))
			}
			if !o.NoComments && !o.Markers {
				if gen.Chance(t, 25, "blockbefore") {
					s.Before = []string{pick(t, CommentTexts, "bb")}
				}
				if gen.Chance(t, 10, "lparensuffix") {
					s.LParenSuffix = "lp"
				}
				if gen.Chance(t, 15, "rparenbefore") {
					s.RParenBefore = []string{pick(t, CommentTexts, "rb")}
				}
				if gen.Chance(t, 10, "rparensuffix") {
					s.RParenSuffix = "rp"
				}
			} else if o.Markers && verb != "retract" && gen.Chance(t, 20, "blockbefore") {
				// (retract blocks stay uncommented: collapsing a one-line commented block merges the
				// block comment into the line's rationale, which legitimately changes the parsed text)
				s.Before = []string{"BLOCK" + strconv.Itoa(g.nextID)}
			}
			if o.Markers && gen.Chance(t, 10, "lparenmarker") {
				// a comment on the line of the opening parenthesis (retract blocks too: it belongs to the parenthesis,
				// not to any line, and is no part of a rationale)
				s.LParenSuffix = "LP" + strconv.Itoa(g.nextID)
			}
			if !o.NoComments {
				// something between the last line and ")": such a block is never collapsed
				if o.Markers && gen.Chance(t, 10, "rparenmarker") {
					s.RParenBefore = []string{"RP" + strconv.Itoa(g.nextID)}
				}
				s.RParenBlank = gen.Chance(t, 8, "rparenblank")
				for j := range s.Lines {
					if len(s.Lines[j].Before) > 0 && gen.Chance(t, 8, "blankafter") {
						s.Lines[j].BlankAfter = true
					}
				}
			}
		} else {
			s.Lines = []Directive{g.line(verb)}
			s.Interval = []bool{gen.Chance(t, 20, "eqinterval")}
		}
		f.Stmts = append(f.Stmts, s)
	}
	// a block with nothing in it, anywhere in the file
	if gen.Chance(t, 8, "emptyblock") {
		verbs := []string{"require", "exclude", "replace", "retract", "tool", "godebug"}
		if o.Work {
			verbs = []string{"use", "replace", "godebug"}
		}
		e := Stmt{Block: true, Verb: pick(t, verbs, "emptyverb"), Empty: 1 + gen.Uniform(t, 3, "emptyform"), Blank: rapid.Bool().Draw(t, "emptyblank")}
		at := gen.Uniform(t, len(f.Stmts)+1, "emptyat")
		f.Stmts = append(f.Stmts[:at:at], append([]Stmt{e}, f.Stmts[at:]...)...)
	}
	if gen.Chance(t, 10, "trailws") {
		f.TrailWS = 1 + gen.Uniform(t, 3, "trailwskind")
	}
	// occasionally move the single statements elsewhere (module at the end etc.)
	if gen.Chance(t, 20, "shuffle") && len(f.Stmts) > 1 {
		i := rapid.IntRange(0, len(f.Stmts)-1).Draw(t, "si")
		j := rapid.IntRange(0, len(f.Stmts)-1).Draw(t, "sj")
		f.Stmts[i], f.Stmts[j] = f.Stmts[j], f.Stmts[i]
	}
	if !o.NoComments && gen.Chance(t, 10, "after") {
		f.After = []string{"trailing comment"}
	}
	return f
}

// ---------------------------------------------------------------------------
// rendering

func mustQuote(s string) bool {
	if s == "" || strings.Contains(s, "//") || strings.Contains(s, "/*") {
		return true
	}
	for _, r := range s {
		switch r {
		case ' ', '"', '\'', '`':
			return true
		case '(', ')', '[', ']', '{', '}', ',':
			if len(s) > 1 {
				return true
			}
		default:
			if !unicode.IsPrint(r) {
				return true
			}
		}
	}
	return false
}

func tok(s string, force bool) string {
	if force || mustQuote(s) {
		return strconv.Quote(s)
	}
	return s
}

func (d Directive) q(i int) bool { return i < len(d.Quote) && d.Quote[i] }

// Tokens renders the directive's argument tokens.
func (d Directive) Tokens(interval bool) []string {
	a := d.Args
	switch d.Verb {
	case "go", "toolchain":
		return []string{a[0]}
	case "godebug":
		return []string{a[0] + "=" + a[1]}
	case "module", "tool", "use":
		return []string{tok(a[0], d.q(0))}
	case "require", "exclude":
		return []string{tok(a[0], d.q(0)), tok(a[1], d.q(1))}
	case "replace":
		out := []string{tok(a[0], d.q(0))}
		if a[1] != "" {
			out = append(out, tok(a[1], d.q(1)))
		}
		out = append(out, "=>", tok(a[2], d.q(2)))
		if a[3] != "" {
			out = append(out, tok(a[3], d.q(3)))
		}
		return out
	case "retract":
		if a[0] == a[1] && !interval {
			return []string{tok(a[0], d.q(0))}
		}
		return []string{"[", tok(a[0], d.q(0)), ",", tok(a[1], d.q(1)), "]"}
	}
	panic("modgen: unknown verb " + d.Verb)
}

// IsIndirectMarker reports whether an end-of-line comment text is the indirect marker of a require
// line: the single word "indirect", or "indirect;" followed by more text.
func IsIndirectMarker(text string) bool {
	f := strings.Fields(text)
	return len(f) == 1 && f[0] == "indirect" || len(f) > 1 && f[0] == "indirect;"
}

// LineOf returns the line with the given ID.
func (f File) LineOf(id int) (Directive, bool) {
	for _, s := range f.Stmts {
		for _, d := range s.Lines {
			if d.ID == id {
				return d, true
			}
		}
	}
	return Directive{}, false
}

// SuffixOf returns the end-of-line comment text given to the line with the given ID.
func (f File) SuffixOf(id int) string {
	for _, s := range f.Stmts {
		for _, d := range s.Lines {
			if d.ID == id {
				return d.Suffix
			}
		}
	}
	return ""
}

// SuffixComment is the full end-of-line comment of the directive ("" if none).
func (d Directive) SuffixComment() string {
	switch {
	case d.Indirect && d.Suffix != "":
		return []string{"// indirect; ", "//indirect; ", "//   indirect; ", "// indirect;  ", "//\tindirect;\t", "// indirect;\u00a0", "// indirect;\u2003"}[d.Marker%7] + d.Suffix
	case d.Indirect:
		return []string{"// indirect", "//indirect", "//  indirect", "//\tindirect", "// indirect \t", "//\u00a0indirect", "// indirect\u00a0"}[d.Marker%7]
	case d.Suffix != "":
		return "// " + d.Suffix
	case d.EmptyEOL >= 1 && d.EmptyEOL <= 4:
		return []string{"", "//", "// ", "//\t ", "//  "}[d.EmptyEOL]
	}
	return ""
}

func (f File) sep() string {
	switch f.Spaces {
	case 1:
		return "\t"
	case 2:
		return "  "
	}
	return " "
}

func joinTokens(toks []string, sep string) string {
	// brackets and commas may be written without surrounding spaces; keep them spaced
	// except for the compact retract form which is rendered as "[a, b]".
	var sb strings.Builder
	for i, t := range toks {
		if i > 0 && t != "," && t != "]" && toks[i-1] != "[" {
			sb.WriteString(sep)
		}
		sb.WriteString(t)
	}
	return sb.String()
}

// Render produces the file text.
func (f File) Render() string {
	var lines []string
	sep := f.sep()
	comment := func(indent, c string) {
		if c == "" {
			lines = append(lines, indent+"//")
		} else {
			lines = append(lines, indent+"// "+c)
		}
	}
	for _, s := range f.Stmts {
		if s.Blank && len(lines) > 0 {
			lines = append(lines, "")
		}
		if !s.Block {
			d := s.Lines[0]
			for _, c := range d.Before {
				comment("", c)
			}
			interval := len(s.Interval) > 0 && s.Interval[0]
			l := s.Verb + sep + joinTokens(d.Tokens(interval), sep)
			if sc := d.SuffixComment(); sc != "" {
				l += sep + sc
			}
			lines = append(lines, l)
			continue
		}
		if s.Empty == 1 || s.Empty == 2 {
			lines = append(lines, s.Verb+sep+[]string{"", "()", "( )"}[s.Empty])
			continue
		}
		for _, c := range s.Before {
			comment("", c)
		}
		open := s.Verb + sep + "("
		if s.LParenSuffix != "" {
			open += " // " + s.LParenSuffix
		}
		lines = append(lines, open)
		for i, d := range s.Lines {
			if d.Blank && i > 0 {
				lines = append(lines, "")
			}
			for _, c := range d.Before {
				comment("\t", c)
			}
			if d.BlankAfter && len(d.Before) > 0 {
				lines = append(lines, "")
			}
			interval := i < len(s.Interval) && s.Interval[i]
			l := "\t" + joinTokens(d.Tokens(interval), sep)
			if sc := d.SuffixComment(); sc != "" {
				l += sep + sc
			}
			lines = append(lines, l)
		}
		if s.RParenBlank && len(s.Lines) > 0 {
			lines = append(lines, "")
		}
		for _, c := range s.RParenBefore {
			comment("\t", c)
		}
		cl := ")"
		if s.RParenSuffix != "" {
			cl += " // " + s.RParenSuffix
		}
		lines = append(lines, cl)
	}
	for _, c := range f.After {
		lines = append(lines, "")
		comment("", c)
	}
	nl := "\n"
	if f.CRLF {
		nl = "\r\n"
	}
	if f.TrailWS >= 1 && f.TrailWS <= 3 {
		for i := range lines {
			if (i*7+f.TrailWS)%3 != 0 {
				lines[i] += []string{"", " ", "\t", "  \t "}[f.TrailWS]
			}
		}
	}
	out := strings.Join(lines, nl)
	if !f.NoFinal && len(lines) > 0 {
		out += nl
	}
	return out
}

// All returns every directive of the file in document order.
func (f File) All() []Directive {
	var out []Directive
	for _, s := range f.Stmts {
		out = append(out, s.Lines...)
	}
	return out
}
