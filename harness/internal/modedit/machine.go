package modedit

import (
	"fmt"
	"sort"
	"strings"

	"golang.org/x/mod/modfile"
	"golang.org/x/mod/module"
	"pgregory.net/rapid"

	"verif/harness/internal/gen"
	"verif/harness/internal/modgen"
	"verif/harness/internal/pbt"
	"verif/harness/internal/ref/pathref"
	"verif/harness/internal/ref/semverref"
)

// Op is one edit operation with its arguments.
type Op struct {
	Name string
	A    []string `json:",omitempty"`
	Flag bool     `json:",omitempty"`
	Reqs []Req    `json:",omitempty"`
	Dirs []string `json:",omitempty"`
}

func (o Op) String() string {
	switch {
	case o.Reqs != nil:
		return fmt.Sprintf("%s(%v)", o.Name, o.Reqs)
	case o.Dirs != nil:
		return fmt.Sprintf("%s(%q)", o.Name, o.Dirs)
	}
	return fmt.Sprintf("%s(%q,%v)", o.Name, o.A, o.Flag)
}

// Case is a start file plus an operation sequence. Cleanup is applied before every
// bulk setter (the generator inserts it) and once more at the end (Run does).
type Case struct {
	Start modgen.File
	Ops   []Op
}

// modulePath returns the module path of the model ("" if none).
func (m *Model) modulePath() string {
	for _, e := range m.Entries {
		if e.Verb == "module" {
			return e.Args[0]
		}
	}
	return ""
}

// versionOKFor is the documented precondition of AddExclude/AddRetract: canonical and matching the path's major version.
func versionOKFor(path, vers string) bool {
	if !CanonicalFor(path, vers) {
		return false
	}
	_, major, ok, _ := pathref.Split(path)
	if !ok {
		return true // the major version is only checked when the path splits
	}
	return pathref.MajorMatches(vers, major)
}

// ApplyModel applies op to the model and reports whether the operation is expected to fail.
func (m *Model) ApplyModel(op Op) (wantErr bool) {
	a := op.A
	switch op.Name {
	case "AddModuleStmt":
		m.setSingle("module", a[0])
	case "AddGoStmt":
		m.setSingle("go", a[0])
	case "DropGoStmt":
		m.dropVerb("go")
	case "AddToolchainStmt":
		m.setSingle("toolchain", a[0])
	case "DropToolchainStmt":
		m.dropVerb("toolchain")
	case "AddGodebug":
		m.AddGodebug(a[0], a[1])
	case "DropGodebug":
		m.DropGodebug(a[0])
	case "AddRequire":
		m.AddRequire(a[0], a[1])
	case "AddNewRequire":
		m.AddNewRequire(a[0], a[1], op.Flag)
	case "DropRequire":
		m.DropRequire(a[0])
	case "SetRequire", "SetRequireSeparateIndirect":
		m.SetRequire(op.Reqs)
	case "AddExclude":
		if !versionOKFor(a[0], a[1]) {
			return true
		}
		m.AddExclude(a[0], a[1])
	case "DropExclude":
		m.DropExclude(a[0], a[1])
	case "AddReplace":
		m.AddReplace(a[0], a[1], a[2], a[3])
	case "DropReplace":
		m.DropReplace(a[0], a[1])
	case "AddRetract":
		if !versionOKFor(m.modulePath(), a[0]) || !versionOKFor(m.modulePath(), a[1]) {
			return true
		}
		m.AddRetract(a[0], a[1], a[2])
	case "DropRetract":
		m.DropRetract(a[0], a[1])
	case "AddTool":
		m.AddTool(a[0])
	case "DropTool":
		m.DropTool(a[0])
	case "AddUse":
		m.AddUse(a[0])
	case "AddNewUse":
		m.AddNewUse(a[0])
	case "DropUse":
		m.DropUse(a[0])
	case "SetUse":
		m.SetUse(op.Dirs)
	case "SortBlocks":
		m.Dedupe()
	case "AddComment", "Cleanup":
	default:
		panic("modedit: unknown op " + op.Name)
	}
	return false
}

func reqs(rs []Req) []*modfile.Require {
	var out []*modfile.Require
	for _, r := range rs {
		out = append(out, &modfile.Require{Mod: module.Version{Path: r.Path, Version: r.Version}, Indirect: r.Indirect})
	}
	return out
}

// ApplyMod applies op to a real go.mod file.
func ApplyMod(f *modfile.File, op Op) error {
	a := op.A
	switch op.Name {
	case "AddModuleStmt":
		return f.AddModuleStmt(a[0])
	case "AddGoStmt":
		return f.AddGoStmt(a[0])
	case "DropGoStmt":
		f.DropGoStmt()
	case "AddToolchainStmt":
		return f.AddToolchainStmt(a[0])
	case "DropToolchainStmt":
		f.DropToolchainStmt()
	case "AddGodebug":
		return f.AddGodebug(a[0], a[1])
	case "DropGodebug":
		return f.DropGodebug(a[0])
	case "AddRequire":
		return f.AddRequire(a[0], a[1])
	case "AddNewRequire":
		f.AddNewRequire(a[0], a[1], op.Flag)
	case "DropRequire":
		return f.DropRequire(a[0])
	case "SetRequire":
		f.SetRequire(reqs(op.Reqs))
	case "SetRequireSeparateIndirect":
		f.SetRequireSeparateIndirect(reqs(op.Reqs))
	case "AddExclude":
		return f.AddExclude(a[0], a[1])
	case "DropExclude":
		return f.DropExclude(a[0], a[1])
	case "AddReplace":
		return f.AddReplace(a[0], a[1], a[2], a[3])
	case "DropReplace":
		return f.DropReplace(a[0], a[1])
	case "AddRetract":
		return f.AddRetract(modfile.VersionInterval{Low: a[0], High: a[1]}, a[2])
	case "DropRetract":
		return f.DropRetract(modfile.VersionInterval{Low: a[0], High: a[1]})
	case "AddTool":
		return f.AddTool(a[0])
	case "DropTool":
		return f.DropTool(a[0])
	case "AddComment":
		f.AddComment(a[0])
	case "SortBlocks":
		f.SortBlocks()
	case "Cleanup":
		f.Cleanup()
	default:
		panic("modedit: op " + op.Name + " not applicable to go.mod")
	}
	return nil
}

// ApplyWork applies op to a real go.work file.
func ApplyWork(f *modfile.WorkFile, op Op) error {
	a := op.A
	switch op.Name {
	case "AddGoStmt":
		return f.AddGoStmt(a[0])
	case "DropGoStmt":
		f.DropGoStmt()
	case "AddToolchainStmt":
		return f.AddToolchainStmt(a[0])
	case "DropToolchainStmt":
		f.DropToolchainStmt()
	case "AddGodebug":
		return f.AddGodebug(a[0], a[1])
	case "DropGodebug":
		return f.DropGodebug(a[0])
	case "AddUse":
		return f.AddUse(a[0], "")
	case "AddNewUse":
		f.AddNewUse(a[0], "")
	case "DropUse":
		return f.DropUse(a[0])
	case "SetUse":
		var us []*modfile.Use
		for _, d := range op.Dirs {
			us = append(us, &modfile.Use{Path: d})
		}
		f.SetUse(us)
	case "AddReplace":
		return f.AddReplace(a[0], a[1], a[2], a[3])
	case "DropReplace":
		return f.DropReplace(a[0], a[1])
	case "SortBlocks":
		f.SortBlocks()
	case "Cleanup":
		f.Cleanup()
	default:
		panic("modedit: op " + op.Name + " not applicable to go.work")
	}
	return nil
}

// ---------------------------------------------------------------------------
// generation

var modOps = []string{"AddModuleStmt", "AddGoStmt", "DropGoStmt", "AddToolchainStmt", "DropToolchainStmt",
	"AddGodebug", "DropGodebug", "AddRequire", "AddRequire", "AddNewRequire", "DropRequire", "SetRequire", "SetRequireSeparateIndirect",
	"AddExclude", "DropExclude", "AddReplace", "AddReplace", "DropReplace", "AddRetract", "DropRetract", "AddTool", "DropTool",
	"AddComment", "SortBlocks", "Cleanup"}
var workOps = []string{"AddGoStmt", "DropGoStmt", "AddToolchainStmt", "DropToolchainStmt", "AddGodebug", "DropGodebug",
	"AddUse", "AddUse", "AddNewUse", "SetUse", "DropUse", "DropUse", "AddReplace", "AddReplace", "DropReplace", "SortBlocks", "Cleanup"}

func pick[T any](t *rapid.T, l []T, label string) T {
	return l[gen.Uniform(t, len(l), label)]
}

type opGen struct {
	t *rapid.T
	m *Model
}

func (g *opGen) existing(verb string) (Entry, bool) {
	es := g.m.ByVerb(verb)
	if len(es) == 0 || gen.Chance(g.t, 25, "fresh") {
		return Entry{}, false
	}
	return es[rapid.IntRange(0, len(es)-1).Draw(g.t, "ex")], true
}

func (g *opGen) modAndVersion() (string, string) {
	mp := pick(g.t, modgen.Mods[:6], "mod")
	return mp.Path, pick(g.t, mp.Versions, "ver")
}

func (g *opGen) versionFor(path string) string {
	for _, mp := range append(append([]modgen.ModPool{}, modgen.Mods...), modgen.OddMods...) {
		if mp.Path == path {
			return pick(g.t, mp.Versions, "ver")
		}
	}
	return "v1.0.0"
}

func (g *opGen) reqList() []Req {
	var out []Req
	seen := map[string]bool{}
	// keep some of the existing ones (possibly with changed version / flag), add some new
	for _, e := range g.m.ByVerb("require") {
		if seen[e.Args[0]] || rapid.IntRange(0, 2).Draw(g.t, "keep") == 0 {
			continue
		}
		seen[e.Args[0]] = true
		r := Req{e.Args[0], e.Args[1], e.Indirect}
		if rapid.IntRange(0, 2).Draw(g.t, "chv") == 0 {
			r.Version = g.versionFor(r.Path)
		}
		if rapid.IntRange(0, 2).Draw(g.t, "chi") == 0 {
			r.Indirect = !r.Indirect
		}
		out = append(out, r)
	}
	n := rapid.IntRange(0, 3).Draw(g.t, "nnew")
	for i := 0; i < n; i++ {
		p, v := g.modAndVersion()
		if seen[p] {
			continue
		}
		seen[p] = true
		out = append(out, Req{p, v, rapid.Bool().Draw(g.t, "ind")})
	}
	if len(out) > 0 && gen.Chance(g.t, 10, "repeatreq") {
		// the same requirement listed twice (allowed: "at most one distinct version for each module path")
		out = append(out, out[gen.Uniform(g.t, len(out), "repeatwhich")])
	}
	return out
}

func (g *opGen) op(name string) Op {
	t := g.t
	switch name {
	case "AddModuleStmt":
		return Op{Name: name, A: []string{pick(t, []string{"example.com/m", "example.com/a", "example.com/new/v2", "example.com/a b"}, "modpath")}}
	case "AddGoStmt":
		return Op{Name: name, A: []string{pick(t, modgen.GoVersions, "gov")}}
	case "AddToolchainStmt":
		return Op{Name: name, A: []string{pick(t, modgen.Toolchains, "tc")}}
	case "DropGoStmt", "DropToolchainStmt", "SortBlocks", "Cleanup":
		return Op{Name: name}
	case "AddGodebug":
		k := pick(t, modgen.GodebugKeys, "gk")
		if e, ok := g.existing("godebug"); ok {
			k = e.Args[0]
		}
		return Op{Name: name, A: []string{k, pick(t, modgen.GodebugVals, "gv")}}
	case "DropGodebug":
		k := pick(t, modgen.GodebugKeys, "gk")
		if e, ok := g.existing("godebug"); ok {
			k = e.Args[0]
		}
		return Op{Name: name, A: []string{k}}
	case "AddRequire", "AddNewRequire":
		p, v := g.modAndVersion()
		if e, ok := g.existing("require"); ok {
			p, v = e.Args[0], g.versionFor(e.Args[0])
		}
		return Op{Name: name, A: []string{p, v}, Flag: name == "AddNewRequire" && rapid.Bool().Draw(t, "ind")}
	case "DropRequire":
		p, _ := g.modAndVersion()
		if e, ok := g.existing("require"); ok {
			p = e.Args[0]
		}
		return Op{Name: name, A: []string{p}}
	case "SetRequire", "SetRequireSeparateIndirect":
		return Op{Name: name, Reqs: g.reqList()}
	case "AddExclude", "DropExclude":
		p, v := g.modAndVersion()
		if e, ok := g.existing("exclude"); ok {
			p, v = e.Args[0], e.Args[1]
			if name == "AddExclude" && rapid.Bool().Draw(t, "otherv") {
				v = g.versionFor(p)
			}
		}
		if name == "AddExclude" && gen.Chance(t, 10, "badversion") {
			v = pick(t, []string{"v1", "v1.2", "", "v9.0.0", "v1.0.0+meta", "master"}, "badv")
		}
		return Op{Name: name, A: []string{p, v}}
	case "AddReplace":
		op, ov := g.modAndVersion()
		sameTarget := []string(nil)
		if e, ok := g.existing("replace"); ok {
			op, ov = e.Args[0], e.Args[1]
			if rapid.IntRange(0, 2).Draw(t, "othero") == 0 {
				ov = g.versionFor(op)
			}
			if gen.Chance(t, 25, "sametarget") {
				// the replacement an existing directive already points at, under another (or the same) key
				sameTarget = []string{e.Args[2], e.Args[3]}
			}
		}
		if rapid.IntRange(0, 2).Draw(t, "wild") == 0 {
			ov = ""
		}
		if sameTarget != nil {
			return Op{Name: name, A: []string{op, ov, sameTarget[0], sameTarget[1]}}
		}
		if rapid.Bool().Draw(t, "todir") {
			return Op{Name: name, A: []string{op, ov, pick(t, modgen.Dirs, "dir"), ""}}
		}
		np, nv := g.modAndVersion()
		return Op{Name: name, A: []string{op, ov, np, nv}}
	case "DropReplace":
		op, ov := g.modAndVersion()
		if e, ok := g.existing("replace"); ok {
			op, ov = e.Args[0], e.Args[1]
		} else if rapid.Bool().Draw(t, "wild") {
			ov = ""
		}
		return Op{Name: name, A: []string{op, ov}}
	case "AddRetract", "DropRetract":
		mp := g.m.modulePath()
		lo := g.versionFor(mp)
		hi := lo
		if rapid.Bool().Draw(t, "interval") {
			hi = g.versionFor(mp)
		}
		if gen.Chance(t, 8, "twin") {
			// bounds that are equal in precedence and different as strings
			if strings.HasSuffix(lo, "+incompatible") {
				hi, lo = lo, strings.TrimSuffix(lo, "+incompatible")
			} else if !strings.Contains(lo, "+") {
				hi = lo + "+incompatible"
			}
		}
		if e, ok := g.existing("retract"); ok && name == "DropRetract" {
			lo, hi = e.Args[0], e.Args[1]
		}
		if name == "DropRetract" {
			return Op{Name: name, A: []string{lo, hi}}
		}
		if gen.Chance(t, 8, "badversion") {
			lo = pick(t, []string{"v1", "", "v1.2"}, "badv")
		}
		return Op{Name: name, A: []string{lo, hi, pick(t, []string{"", "bad release", "two\nlines", "Published accidentally.", "Published accidentally.\n\nUse v1.2.1 instead.", "\nleading blank", "trailing blank\n", "a\n\n\nb", "  spaced  \n\tlines\t"}, "rationale")}}
	case "AddTool", "DropTool":
		p := pick(t, modgen.ToolPaths, "tool")
		if e, ok := g.existing("tool"); ok {
			p = e.Args[0]
		}
		return Op{Name: name, A: []string{p}}
	case "AddComment":
		return Op{Name: name, A: []string{pick(t, []string{"// added comment", "// another"}, "comment")}}
	case "AddUse", "AddNewUse", "DropUse":
		d := pick(t, modgen.Dirs, "dir")
		if e, ok := g.existing("use"); ok {
			d = e.Args[0]
			if gen.Chance(t, 20, "respell") {
				// another spelling of the same directory: a different key for these operations
				switch rapid.IntRange(0, 3).Draw(t, "spelling") {
				case 0:
					d += "/"
				case 1:
					d = strings.TrimSuffix(d, "/")
				case 2:
					if strings.HasPrefix(d, "./") && len(d) > 2 {
						d = "./x/../" + d[2:]
					}
				case 3:
					d = "./" + d
				}
			}
		}
		return Op{Name: name, A: []string{d}}
	case "SetUse":
		var dirs []string
		seen := map[string]bool{}
		for _, e := range g.m.ByVerb("use") {
			if !seen[e.Args[0]] && rapid.IntRange(0, 2).Draw(t, "keep") != 0 {
				seen[e.Args[0]] = true
				dirs = append(dirs, e.Args[0])
			}
		}
		n := rapid.IntRange(0, 3).Draw(t, "nnew")
		for i := 0; i < n; i++ {
			d := pick(t, modgen.Dirs, "dir")
			if !seen[d] {
				seen[d] = true
				dirs = append(dirs, d)
			}
		}
		return Op{Name: name, Dirs: dirs}
	}
	panic("modedit: no generator for " + name)
}

// follow picks an operation that acts on what prev just touched (so that "a later
// operation sees what an earlier one did" is exercised).
func (g *opGen) follow(prev Op) (Op, bool) {
	t := g.t
	switch prev.Name {
	case "AddRequire", "AddNewRequire":
		switch rapid.IntRange(0, 2).Draw(t, "fw") {
		case 0:
			return Op{Name: "DropRequire", A: prev.A[:1]}, true
		case 1:
			return Op{Name: "AddRequire", A: []string{prev.A[0], g.versionFor(prev.A[0])}}, true
		}
	case "AddExclude":
		return Op{Name: "DropExclude", A: prev.A}, true
	case "AddReplace":
		switch rapid.IntRange(0, 2).Draw(t, "fw") {
		case 0:
			return Op{Name: "DropReplace", A: prev.A[:2]}, true
		case 1:
			return Op{Name: "AddReplace", A: []string{prev.A[0], "", "./other", ""}}, true
		}
		return Op{Name: "DropReplace", A: []string{prev.A[0], ""}}, true
	case "AddRetract":
		return Op{Name: "DropRetract", A: prev.A[:2]}, true
	case "AddTool":
		return Op{Name: "DropTool", A: prev.A}, true
	case "DropTool":
		return Op{Name: "AddTool", A: prev.A}, true
	case "AddGodebug":
		return Op{Name: "DropGodebug", A: prev.A[:1]}, true
	case "DropGodebug":
		return Op{Name: "AddGodebug", A: []string{prev.A[0], "1"}}, true
	case "AddUse", "AddNewUse":
		return Op{Name: "DropUse", A: prev.A}, true
	case "DropRequire":
		return Op{Name: "AddRequire", A: []string{prev.A[0], g.versionFor(prev.A[0])}}, true
	}
	return Op{}, false
}

// GenCase draws a start file and an operation sequence.
func GenCase(t *rapid.T, work bool, maxOps int, names []string) Case {
	return GenCaseThen(t, work, maxOps, names, nil)
}

// GenCaseThen is GenCase followed by one more operation drawn from last (if not empty), generated against
// what the earlier operations left: the setters are documented for whatever the file holds, and a file
// that earlier calls of the same session have edited is not laid out like a freshly parsed one.
func GenCaseThen(t *rapid.T, work bool, maxOps int, names []string, last []string) Case {
	o := modgen.Options{Work: work, Markers: true, OddPaths: true, DupHeavy: rapid.Bool().Draw(t, "dupheavy")}
	start := modgen.Gen(t, o)
	c := Case{Start: start}
	m := FromSpec(start)
	g := &opGen{t: t, m: m}
	if names == nil {
		names = modOps
		if work {
			names = workOps
		}
	}
	n := rapid.IntRange(1, maxOps).Draw(t, "nops")
	var prev Op
	for i := 0; i < n; i++ {
		var op Op
		ok := false
		if i > 0 && rapid.IntRange(0, 9).Draw(t, "follow") < 4 {
			op, ok = g.follow(prev)
			if ok && work {
				switch op.Name {
				case "AddGodebug", "DropGodebug", "AddUse", "DropUse", "AddReplace", "DropReplace":
				default:
					ok = false
				}
			}
		}
		if !ok {
			op = g.op(pick(t, names, "opname"))
		}
		if op.Name == "SetRequire" || op.Name == "SetRequireSeparateIndirect" || op.Name == "SetUse" {
			c.Ops = append(c.Ops, Op{Name: "Cleanup"})
		}
		c.Ops = append(c.Ops, op)
		m.ApplyModel(op)
		prev = op
	}
	if len(last) > 0 {
		op := g.op(pick(t, last, "lastop"))
		c.Ops = append(c.Ops, Op{Name: "Cleanup"}, op)
		m.ApplyModel(op)
	}
	return c
}

// ---------------------------------------------------------------------------
// running a case against the real API

// Directive is what the checks observe of one directive, either from the in-memory
// structure or from a strict re-parse of the formatted output.
type Directive struct {
	Verb      string
	Canon     string
	Before    []string // comment texts, trimmed, without slashes
	Suffix    []string
	InBlock   bool
	HasSyntax bool
	ZeroKey   bool
}

type Outcome struct {
	Text     string      // formatted output after the final Cleanup
	Mem      []Directive // from the in-memory structure
	Reparsed []Directive // from strict Parse(Text)
	Model    *Model
	Syntax   *modfile.FileSyntax // of the re-parse
	MemFile  *modfile.File
	MemWork  *modfile.WorkFile
}

func commentTexts(cs []modfile.Comment) []string {
	var out []string
	for _, c := range cs {
		if c.Token == "" {
			continue
		}
		out = append(out, strings.TrimSpace(strings.TrimPrefix(strings.TrimSpace(c.Token), "//")))
	}
	return out
}

func dir(verb, canon string, l *modfile.Line, zero bool) Directive {
	d := Directive{Verb: verb, Canon: canon, ZeroKey: zero}
	if l != nil {
		d.HasSyntax = l.Token != nil
		d.Before, d.Suffix, d.InBlock = commentTexts(l.Before), commentTexts(l.Suffix), l.InBlock
	}
	return d
}

func canon(verb string, args []string) string { return Entry{Verb: verb, Args: args}.Canon() }

// ModDirectives lists the directives of a go.mod structure.
func ModDirectives(f *modfile.File) []Directive {
	var out []Directive
	if f.Module != nil {
		out = append(out, dir("module", canon("module", []string{f.Module.Mod.Path}), f.Module.Syntax, false))
	}
	if f.Go != nil {
		out = append(out, dir("go", canon("go", []string{f.Go.Version}), f.Go.Syntax, false))
	}
	if f.Toolchain != nil {
		out = append(out, dir("toolchain", canon("toolchain", []string{f.Toolchain.Name}), f.Toolchain.Syntax, false))
	}
	for _, g := range f.Godebug {
		out = append(out, dir("godebug", canon("godebug", []string{g.Key, g.Value}), g.Syntax, g.Key == ""))
	}
	for _, r := range f.Require {
		e := Entry{Verb: "require", Args: []string{r.Mod.Path, r.Mod.Version}, Indirect: r.Indirect}
		out = append(out, dir("require", e.Canon(), r.Syntax, r.Mod.Path == ""))
	}
	for _, x := range f.Exclude {
		out = append(out, dir("exclude", canon("exclude", []string{x.Mod.Path, x.Mod.Version}), x.Syntax, x.Mod.Path == ""))
	}
	for _, x := range f.Replace {
		out = append(out, dir("replace", canon("replace", []string{x.Old.Path, x.Old.Version, x.New.Path, x.New.Version}), x.Syntax, x.Old.Path == ""))
	}
	for _, x := range f.Retract {
		e := Entry{Verb: "retract", Args: []string{x.Low, x.High}, Text: normRationale(x.Rationale)}
		out = append(out, dir("retract", e.Canon(), x.Syntax, x.Low == "" && x.High == ""))
	}
	for _, x := range f.Tool {
		out = append(out, dir("tool", canon("tool", []string{x.Path}), x.Syntax, x.Path == ""))
	}
	return out
}

// WorkDirectives lists the directives of a go.work structure.
func WorkDirectives(f *modfile.WorkFile) []Directive {
	var out []Directive
	if f.Go != nil {
		out = append(out, dir("go", canon("go", []string{f.Go.Version}), f.Go.Syntax, false))
	}
	if f.Toolchain != nil {
		out = append(out, dir("toolchain", canon("toolchain", []string{f.Toolchain.Name}), f.Toolchain.Syntax, false))
	}
	for _, g := range f.Godebug {
		out = append(out, dir("godebug", canon("godebug", []string{g.Key, g.Value}), g.Syntax, g.Key == ""))
	}
	for _, x := range f.Use {
		out = append(out, dir("use", canon("use", []string{x.Path}), x.Syntax, x.Path == ""))
	}
	for _, x := range f.Replace {
		out = append(out, dir("replace", canon("replace", []string{x.Old.Path, x.Old.Version, x.New.Path, x.New.Version}), x.Syntax, x.Old.Path == ""))
	}
	return out
}

func normRationale(s string) string {
	lines := strings.Split(s, "\n")
	for i := range lines {
		lines[i] = strings.TrimSpace(lines[i])
	}
	return strings.Join(lines, "\n")
}

// MultisetOf renders the directives of a verb as a sorted list.
func MultisetOf(ds []Directive, verb string) []string {
	out := []string{}
	for _, d := range ds {
		if d.Verb == verb {
			out = append(out, d.Canon)
		}
	}
	sort.Strings(out)
	return out
}

// Verbs lists the directive kinds compared for a file kind.
func Verbs(work bool) []string {
	if work {
		return []string{"go", "toolchain", "godebug", "use", "replace"}
	}
	return []string{"module", "go", "toolchain", "godebug", "require", "exclude", "replace", "retract", "tool"}
}

func modelCanonRetract(m *Model) {
	for i := range m.Entries {
		if m.Entries[i].Verb == "retract" {
			m.Entries[i].Text = normRationale(m.Entries[i].Text)
		}
	}
}

// OKCase bounds replayed cases to the generator's domain.
func OKCase(c Case) bool {
	if len(c.Ops) > 120 || len(c.Start.Stmts) > 40 {
		return false
	}
	for _, s := range c.Start.Stmts {
		if len(s.Lines) == 0 && !s.Block {
			return false
		}
		for _, d := range s.Lines {
			if d.Verb != s.Verb || len(d.Args) == 0 {
				return false
			}
		}
	}
	return true
}

// Run executes the case. A non-nil failure reports something that went wrong
// before the oracles of the individual properties apply (start file rejected,
// parse differs from the specification, unexpected operation error, output rejected).
func Run(c Case) (*Outcome, *pbt.Failure) {
	start := c.Start
	text := start.Render()
	m := FromSpec(start)
	modelCanonRetract(m)
	out := &Outcome{Model: m}
	var apply func(Op) error
	var mem func() []Directive
	var format func() []byte
	if start.Work {
		f, err := modfile.ParseWork("go.work", []byte(text), nil)
		if err != nil {
			return nil, pbt.Failf("wellformed-rejected", "strict parser rejects the start file: %v\n%s", err, text)
		}
		out.MemWork = f
		apply = func(op Op) error { return ApplyWork(f, op) }
		mem = func() []Directive { return WorkDirectives(f) }
		format = func() []byte { return modfile.Format(f.Syntax) }
	} else {
		f, err := modfile.Parse("go.mod", []byte(text), nil)
		if err != nil {
			return nil, pbt.Failf("wellformed-rejected", "strict parser rejects the start file: %v\n%s", err, text)
		}
		out.MemFile = f
		apply = func(op Op) error { return ApplyMod(f, op) }
		mem = func() []Directive { return ModDirectives(f) }
		format = func() []byte { b, _ := f.Format(); return b }
	}
	// the parser must have read what the specification says
	for _, verb := range Verbs(start.Work) {
		if got, want := MultisetOf(mem(), verb), m.Multiset(verb); fmt.Sprint(got) != fmt.Sprint(want) {
			return nil, pbt.Failf("parse-vs-spec", "start file: parsed %s directives %q, the file was written to mean %q\n%s", verb, got, want, text)
		}
	}
	for i, op := range c.Ops {
		wantErr := m.ApplyModel(op)
		err := apply(op)
		if (err != nil) != wantErr {
			return nil, pbt.Failf("op-error", "op %d %v: error %v, expected error: %v\nstart:\n%s", i, op, err, wantErr, text)
		}
	}
	modelCanonRetract(m)
	apply(Op{Name: "Cleanup"})
	out.Text = string(format())
	out.Mem = mem()
	if start.Work {
		g, err := modfile.ParseWork("go.work", []byte(out.Text), nil)
		if err != nil {
			return out, pbt.Failf("output-rejected", "after %v the formatted go.work no longer parses strictly: %v\nstart:\n%s\noutput:\n%s", c.Ops, err, text, out.Text)
		}
		out.Reparsed, out.Syntax = WorkDirectives(g), g.Syntax
	} else {
		g, err := modfile.Parse("go.mod", []byte(out.Text), nil)
		if err != nil {
			return out, pbt.Failf("output-rejected", "after %v the formatted go.mod no longer parses strictly: %v\nstart:\n%s\noutput:\n%s", c.Ops, err, text, out.Text)
		}
		out.Reparsed, out.Syntax = ModDirectives(g), g.Syntax
	}
	return out, nil
}

var _ = semverref.IsValid
