// Package modedit holds the list/map model of go.mod / go.work directives, the
// generator of edit-operation sequences, and the code that applies a sequence
// to the real modfile API. It is shared by the checks of C08, C15 and C16.
//
// model.go is written from the doc comments of the edit operations; it does not
// look at the syntax tree.
package modedit

import (
	"fmt"
	"sort"
	"strings"

	"verif/harness/internal/modgen"
	"verif/harness/internal/ref/semverref"
)

// Entry is one directive in the model. ID is the identity of the source line it
// came from (0 for lines created by an operation). Touched is set when an
// operation rewrote the line in a way that is not documented to preserve comments.
type Entry struct {
	Verb     string
	Args     []string // same layout as modgen.Directive.Args
	Indirect bool
	Text     string // retract: rationale
	ID       int
	Touched  bool
	// KeepSuffixMarker: the line's end-of-line comment is expected to survive
	// (modulo the indirect marker).
}

type Model struct {
	Work    bool
	Entries []Entry // document order is irrelevant to the oracle; kept for readability
}

func (e Entry) key() string { return e.Verb + "\x00" + strings.Join(e.Args, "\x00") }

// Canon renders an entry's values for multiset comparison.
func (e Entry) Canon() string {
	switch e.Verb {
	case "require":
		return fmt.Sprintf("require %q %q indirect=%v", e.Args[0], e.Args[1], e.Indirect)
	case "retract":
		return fmt.Sprintf("retract [%q,%q] %q", e.Args[0], e.Args[1], e.Text)
	}
	return fmt.Sprintf("%s %q", e.Verb, e.Args)
}

// FromSpec builds the model of a generated file. Versions are canonical in specs
// used with the edit machine.
func FromSpec(f modgen.File) *Model {
	m := &Model{Work: f.Work}
	for _, s := range f.Stmts {
		for _, d := range s.Lines {
			e := Entry{Verb: d.Verb, Args: append([]string(nil), d.Args...), Indirect: d.Indirect, ID: d.ID}
			if d.Verb == "retract" {
				// rationale: the line's own comments, or the block's when it has none
				var lines []string
				lines = append(lines, d.Before...)
				if d.Suffix != "" {
					lines = append(lines, d.Suffix)
				}
				if len(lines) == 0 && s.Block {
					lines = append(lines, s.Before...)
				}
				for i := range lines {
					lines[i] = strings.TrimSpace(lines[i])
				}
				e.Text = strings.Join(lines, "\n")
			}
			m.Entries = append(m.Entries, e)
		}
	}
	return m
}

func (m *Model) filter(keep func(Entry) bool) {
	var out []Entry
	for _, e := range m.Entries {
		if keep(e) {
			out = append(out, e)
		}
	}
	m.Entries = out
}

func (m *Model) first(match func(Entry) bool) int {
	for i, e := range m.Entries {
		if match(e) {
			return i
		}
	}
	return -1
}

// ByVerb returns the entries with the verb, in order.
func (m *Model) ByVerb(verb string) []Entry {
	var out []Entry
	for _, e := range m.Entries {
		if e.Verb == verb {
			out = append(out, e)
		}
	}
	return out
}

// setSingle implements the single-slot directives (module, go, toolchain).
func (m *Model) setSingle(verb, val string) {
	if i := m.first(func(e Entry) bool { return e.Verb == verb }); i >= 0 {
		m.Entries[i].Args = []string{val}
		m.Entries[i].Touched = true
		return
	}
	m.Entries = append(m.Entries, Entry{Verb: verb, Args: []string{val}})
}

func (m *Model) dropVerb(verb string) { m.filter(func(e Entry) bool { return e.Verb != verb }) }

// setKeyed: "sets the first line for key to value, preserving any existing comments
// for that line and removing all other lines for key; if no line exists adds a new one".
func (m *Model) setKeyed(verb, key string, update func(*Entry), fresh Entry) {
	i := m.first(func(e Entry) bool { return e.Verb == verb && e.Args[0] == key })
	if i < 0 {
		m.Entries = append(m.Entries, fresh)
		return
	}
	update(&m.Entries[i])
	keepID := i
	var out []Entry
	for j, e := range m.Entries {
		if j != keepID && e.Verb == verb && e.Args[0] == key {
			continue
		}
		out = append(out, e)
	}
	m.Entries = out
}

func (m *Model) AddGodebug(k, v string) {
	m.setKeyed("godebug", k, func(e *Entry) { e.Args[1] = v }, Entry{Verb: "godebug", Args: []string{k, v}})
}
func (m *Model) DropGodebug(k string) {
	m.filter(func(e Entry) bool { return !(e.Verb == "godebug" && e.Args[0] == k) })
}
func (m *Model) AddRequire(p, v string) {
	m.setKeyed("require", p, func(e *Entry) { e.Args[1] = v }, Entry{Verb: "require", Args: []string{p, v}})
}
func (m *Model) AddNewRequire(p, v string, indirect bool) {
	m.Entries = append(m.Entries, Entry{Verb: "require", Args: []string{p, v}, Indirect: indirect})
}
func (m *Model) DropRequire(p string) {
	m.filter(func(e Entry) bool { return !(e.Verb == "require" && e.Args[0] == p) })
}

type Req struct {
	Path, Version string
	Indirect      bool
}

// SetRequire: "updates the requirements to contain exactly req, preserving ... line comment
// contents (except for 'indirect' markings) for the first requirement on each named module path".
func (m *Model) SetRequire(req []Req) {
	need := map[string]Req{}
	for _, r := range req {
		need[r.Path] = r
	}
	var out []Entry
	for _, e := range m.Entries {
		if e.Verb != "require" {
			out = append(out, e)
			continue
		}
		r, ok := need[e.Args[0]]
		if !ok {
			continue // not requested, or a later duplicate of a path already kept
		}
		delete(need, e.Args[0])
		e.Args[1], e.Indirect = r.Version, r.Indirect
		out = append(out, e)
	}
	// new ones, in a deterministic order (the oracle compares multisets)
	var paths []string
	for p := range need {
		paths = append(paths, p)
	}
	sort.Strings(paths)
	for _, p := range paths {
		out = append(out, Entry{Verb: "require", Args: []string{p, need[p].Version}, Indirect: need[p].Indirect})
	}
	m.Entries = out
	m.Dedupe()
}

func (m *Model) AddExclude(p, v string) {
	if m.first(func(e Entry) bool { return e.Verb == "exclude" && e.Args[0] == p && e.Args[1] == v }) >= 0 {
		return
	}
	m.Entries = append(m.Entries, Entry{Verb: "exclude", Args: []string{p, v}})
}
func (m *Model) DropExclude(p, v string) {
	m.filter(func(e Entry) bool { return !(e.Verb == "exclude" && e.Args[0] == p && e.Args[1] == v) })
}

// AddReplace: with an empty old version every replacement of the path collapses into one
// wildcard replacement at the place of the first; otherwise the first exact match is
// rewritten and other exact matches are deleted; without a match a new line is added.
func (m *Model) AddReplace(op, ov, np, nv string) {
	match := func(e Entry) bool {
		return e.Verb == "replace" && e.Args[0] == op && (ov == "" || e.Args[1] == ov)
	}
	i := m.first(match)
	if i < 0 {
		m.Entries = append(m.Entries, Entry{Verb: "replace", Args: []string{op, ov, np, nv}})
		return
	}
	m.Entries[i].Args = []string{op, ov, np, nv}
	m.Entries[i].Touched = true
	var out []Entry
	for j, e := range m.Entries {
		if j != i && match(e) {
			continue
		}
		out = append(out, e)
	}
	m.Entries = out
}
func (m *Model) DropReplace(op, ov string) {
	m.filter(func(e Entry) bool { return !(e.Verb == "replace" && e.Args[0] == op && e.Args[1] == ov) })
}
func (m *Model) AddRetract(lo, hi, rationale string) {
	m.Entries = append(m.Entries, Entry{Verb: "retract", Args: []string{lo, hi}, Text: rationale})
}
func (m *Model) DropRetract(lo, hi string) {
	m.filter(func(e Entry) bool { return !(e.Verb == "retract" && e.Args[0] == lo && e.Args[1] == hi) })
}
func (m *Model) AddTool(p string) {
	if m.first(func(e Entry) bool { return e.Verb == "tool" && e.Args[0] == p }) >= 0 {
		return // "It does nothing if the tool line already exists."
	}
	m.Entries = append(m.Entries, Entry{Verb: "tool", Args: []string{p}})
	m.Dedupe() // a successful AddTool sorts the blocks, which de-duplicates first
}
func (m *Model) DropTool(p string) {
	m.filter(func(e Entry) bool { return !(e.Verb == "tool" && e.Args[0] == p) })
}
func (m *Model) AddUse(p string) {
	m.setKeyed("use", p, func(e *Entry) { e.Touched = true }, Entry{Verb: "use", Args: []string{p}})
}
func (m *Model) AddNewUse(p string) {
	m.Entries = append(m.Entries, Entry{Verb: "use", Args: []string{p}})
}
func (m *Model) DropUse(p string) {
	m.filter(func(e Entry) bool { return !(e.Verb == "use" && e.Args[0] == p) })
}

// SetUse: exactly the given directories; the first existing line of each kept path stays.
func (m *Model) SetUse(dirs []string) {
	need := map[string]bool{}
	for _, d := range dirs {
		need[d] = true
	}
	var out []Entry
	for _, e := range m.Entries {
		if e.Verb != "use" {
			out = append(out, e)
			continue
		}
		if !need[e.Args[0]] {
			continue
		}
		delete(need, e.Args[0])
		out = append(out, e)
	}
	var rest []string
	for d := range need {
		rest = append(rest, d)
	}
	sort.Strings(rest)
	for _, d := range rest {
		out = append(out, Entry{Verb: "use", Args: []string{d}})
	}
	m.Entries = out
	m.Dedupe()
}

// Dedupe is the documented de-duplication done when blocks are sorted:
// earlier exclude and tool directives take priority, later replace directives take priority.
func (m *Model) Dedupe() {
	seen := map[string]bool{}
	lastReplace := map[string]int{}
	for i, e := range m.Entries {
		if e.Verb == "replace" {
			lastReplace[e.Args[0]+"\x00"+e.Args[1]] = i
		}
	}
	var out []Entry
	for i, e := range m.Entries {
		switch e.Verb {
		case "exclude":
			if !m.Work {
				if seen[e.key()] {
					continue
				}
				seen[e.key()] = true
			}
		case "tool":
			if seen[e.key()] {
				continue
			}
			seen[e.key()] = true
		case "replace":
			if lastReplace[e.Args[0]+"\x00"+e.Args[1]] != i {
				continue
			}
		}
		out = append(out, e)
	}
	m.Entries = out
}

// Multiset renders the entries of a verb as a sorted list of canonical strings.
func (m *Model) Multiset(verb string) []string {
	var out []string
	for _, e := range m.ByVerb(verb) {
		out = append(out, e.Canon())
	}
	sort.Strings(out)
	return out
}

// CanonicalFor reports whether vers is a canonical version matching the major version of path
// (the precondition of AddExclude / AddRetract).
func CanonicalFor(path, vers string) bool {
	if vers == "" || !semverref.IsValid(vers) {
		return false
	}
	c := semverref.Canonical(vers)
	if semverref.Build(vers) == "+incompatible" {
		c += "+incompatible"
	}
	return c == vers
}
