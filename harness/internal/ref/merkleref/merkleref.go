// Package merkleref is an independent implementation of the RFC 6962 Merkle
// tree (hash, audit path, consistency proof), the RFC 9162 verification
// algorithms, and the dense stored-hash layout used by the tlog package. It
// does not import golang.org/x/mod.
package merkleref

import (
	"crypto/sha256"
	"encoding/binary"
	"sync"
)

type Hash = [32]byte

func LeafHash(data []byte) Hash {
	return sha256.Sum256(append([]byte{0x00}, data...))
}

func nodeHash(l, r Hash) Hash {
	b := make([]byte, 0, 65)
	b = append(b, 0x01)
	b = append(b, l[:]...)
	b = append(b, r[:]...)
	return sha256.Sum256(b)
}

// Record i of the log with the given seed; lengths vary: empty, short, around hash block boundaries, long.
func RecordData(seed int64, i int64) []byte {
	var b [16]byte
	binary.LittleEndian.PutUint64(b[:8], uint64(seed))
	binary.LittleEndian.PutUint64(b[8:], uint64(i))
	h := sha256.Sum256(b[:])
	n := int(h[0]) % 40
	switch h[1] % 16 {
	case 0:
		n = 0
	case 1, 2, 3:
		// lengths around the SHA-256 block and padding boundaries, and some long records
		special := []int{54, 55, 56, 57, 62, 63, 64, 65, 66, 118, 119, 120, 127, 128, 129, 191, 192, 193, 255, 256, 257, 300, 1000}
		n = special[int(h[2])%len(special)]
	}
	out := make([]byte, 0, n)
	for len(out) < n {
		out = append(out, h[3+len(out)%29]^byte(len(out)/29))
	}
	return out
}

// Tree is a log of records with memoised subtree hashes.
type Tree struct {
	Leaves [][]byte
	mu     sync.Mutex // guards memo (hash queries may come from several goroutines)
	memo   map[[2]int64]Hash
}

func NewTree() *Tree { return &Tree{memo: map[[2]int64]Hash{}} }

// Seeded returns a tree whose first n records are RecordData(seed, i).
func Seeded(seed int64, n int64) *Tree {
	t := NewTree()
	for i := int64(0); i < n; i++ {
		t.Leaves = append(t.Leaves, RecordData(seed, i))
	}
	return t
}

func (t *Tree) Append(data []byte) { t.Leaves = append(t.Leaves, data) }
func (t *Tree) Size() int64        { return int64(len(t.Leaves)) }

// largest power of two strictly less than n (n >= 2)
func split(n int64) int64 {
	k := int64(1)
	for k <= (n-1)/2 { // k*2 < n without overflow for n up to the largest int64
		k *= 2
	}
	return k
}

// MTH is the Merkle Tree Hash of D[lo:hi] (RFC 6962 section 2.1).
func (t *Tree) MTH(lo, hi int64) Hash {
	t.mu.Lock()
	defer t.mu.Unlock()
	return t.mth(lo, hi)
}

func (t *Tree) mth(lo, hi int64) Hash {
	if hi == lo {
		return sha256.Sum256(nil)
	}
	if hi-lo == 1 {
		return LeafHash(t.Leaves[lo])
	}
	key := [2]int64{lo, hi}
	if h, ok := t.memo[key]; ok {
		return h
	}
	k := split(hi - lo)
	h := nodeHash(t.mth(lo, lo+k), t.mth(lo+k, hi))
	t.memo[key] = h
	return h
}

// Path is the Merkle audit path PATH(m, D[0:n]) (RFC 6962 section 2.1.1).
func (t *Tree) Path(m, n int64) []Hash {
	t.mu.Lock()
	defer t.mu.Unlock()
	return t.path(m, 0, n)
}

func (t *Tree) path(m, lo, hi int64) []Hash {
	if hi-lo == 1 {
		return nil
	}
	k := split(hi - lo)
	if m < lo+k {
		return append(t.path(m, lo, lo+k), t.mth(lo+k, hi))
	}
	return append(t.path(m, lo+k, hi), t.mth(lo, lo+k))
}

// Proof is the consistency proof PROOF(m, D[0:n]) (RFC 6962 section 2.1.2), 0 < m <= n.
func (t *Tree) Proof(m, n int64) []Hash {
	t.mu.Lock()
	defer t.mu.Unlock()
	return t.subproof(m, 0, n, true)
}

func (t *Tree) subproof(m, lo, hi int64, b bool) []Hash {
	if m == hi-lo {
		if b {
			return nil
		}
		return []Hash{t.mth(lo, hi)}
	}
	k := split(hi - lo)
	if m <= k {
		return append(t.subproof(m, lo, lo+k, b), t.mth(lo+k, hi))
	}
	return append(t.subproof(m-k, lo+k, hi, false), t.mth(lo, lo+k))
}

// VerifyInclusion is RFC 9162 section 2.1.3.2.
func VerifyInclusion(path []Hash, treeSize int64, root Hash, index int64, leaf Hash) bool {
	if treeSize < 0 || index < 0 || index >= treeSize {
		return false
	}
	fn, sn := index, treeSize-1
	r := leaf
	for _, p := range path {
		if sn == 0 {
			return false
		}
		if fn&1 == 1 || fn == sn {
			r = nodeHash(p, r)
			if fn&1 == 0 {
				for fn&1 == 0 && fn != 0 {
					fn >>= 1
					sn >>= 1
				}
			}
		} else {
			r = nodeHash(r, p)
		}
		fn >>= 1
		sn >>= 1
	}
	return sn == 0 && r == root
}

// VerifyConsistency is RFC 9162 section 2.1.4.2, extended with the trivial
// case first == second (empty proof, equal roots), which RFC 6962 defines.
func VerifyConsistency(proof []Hash, first, second int64, firstHash, secondHash Hash) bool {
	if first < 1 || second < 1 || first > second {
		return false
	}
	if first == second {
		return len(proof) == 0 && firstHash == secondHash
	}
	if len(proof) == 0 {
		return false
	}
	path := proof
	if first&(first-1) == 0 {
		path = append([]Hash{firstHash}, proof...)
	}
	fn, sn := first-1, second-1
	for fn&1 == 1 {
		fn >>= 1
		sn >>= 1
	}
	fr, sr := path[0], path[0]
	for _, c := range path[1:] {
		if sn == 0 {
			return false
		}
		if fn&1 == 1 || fn == sn {
			fr = nodeHash(c, fr)
			sr = nodeHash(c, sr)
			if fn&1 == 0 {
				for fn&1 == 0 && fn != 0 {
					fn >>= 1
					sn >>= 1
				}
			}
		} else {
			sr = nodeHash(sr, c)
		}
		fn >>= 1
		sn >>= 1
	}
	return fr == firstHash && sr == secondHash && sn == 0
}

// Coord is a position in the tree: the subtree of 2^Level leaves starting at Offset*2^Level.
type Coord struct {
	Level  int
	Offset int64
}

// Layout enumerates the dense storage order for a log of n records:
// after leaf i, every subtree that leaf completes, bottom-up.
func Layout(n int64) []Coord {
	var out []Coord
	for i := int64(0); i < n; i++ {
		out = append(out, LeafCoords(i)...)
	}
	return out
}

// LeafCoords lists what is stored when leaf i is appended: the leaf, then every
// complete subtree it closes, bottom-up.
func LeafCoords(i int64) []Coord {
	out := []Coord{{0, i}}
	for l := 1; (i+1)%(int64(1)<<uint(l)) == 0; l++ {
		out = append(out, Coord{l, (i+1)>>uint(l) - 1})
	}
	return out
}

// Store returns the stored hashes of the first n records in layout order.
func (t *Tree) Store(n int64) []Hash {
	var out []Hash
	for _, c := range Layout(n) {
		out = append(out, t.At(c))
	}
	return out
}

// At returns the hash of the complete subtree at c.
func (t *Tree) At(c Coord) Hash {
	w := int64(1) << uint(c.Level)
	return t.MTH(c.Offset*w, (c.Offset+1)*w)
}

// TileData is the true content of the tile of height h at tile level l, number n, width w
// (w consecutive hashes at tree level h*l starting at offset n*2^h).
func (t *Tree) TileData(h, l int, n int64, w int) []byte {
	var out []byte
	for i := 0; i < w; i++ {
		x := t.At(Coord{h * l, n<<uint(h) + int64(i)})
		out = append(out, x[:]...)
	}
	return out
}

// Uniform is a log whose records are all identical, so that subtree hashes depend only on
// the subtree size. It makes logs of up to 2^62 records tractable for the reference.
type Uniform struct {
	leaf Hash
	mu   sync.Mutex
	memo map[int64]Hash
}

func NewUniform(record []byte) *Uniform {
	return &Uniform{leaf: LeafHash(record), memo: map[int64]Hash{}}
}

// MTHSize is the Merkle tree hash of any n consecutive records (n >= 1).
func (u *Uniform) MTHSize(n int64) Hash {
	u.mu.Lock()
	defer u.mu.Unlock()
	return u.mth(n)
}

func (u *Uniform) mth(n int64) Hash {
	if n < 1 {
		panic("merkleref: Uniform.MTHSize of a non-positive size")
	}
	if n == 1 {
		return u.leaf
	}
	if h, ok := u.memo[n]; ok {
		return h
	}
	k := split(n)
	h := nodeHash(u.mth(k), u.mth(n-k))
	u.memo[n] = h
	return h
}

// Path is PATH(m, D[0:n]) for the uniform log.
func (u *Uniform) Path(m, n int64) []Hash {
	if n == 1 {
		return nil
	}
	k := split(n)
	if m < k {
		return append(u.Path(m, k), u.MTHSize(n-k))
	}
	return append(u.Path(m-k, n-k), u.MTHSize(k))
}

// Proof is PROOF(m, D[0:n]) for the uniform log.
func (u *Uniform) Proof(m, n int64) []Hash { return u.subproof(m, n, true) }

func (u *Uniform) subproof(m, n int64, b bool) []Hash {
	if m == n {
		if b {
			return nil
		}
		return []Hash{u.MTHSize(n)}
	}
	k := split(n)
	if m <= k {
		return append(u.subproof(m, k, b), u.MTHSize(n-k))
	}
	return append(u.subproof(m-k, n-k, false), u.MTHSize(k))
}

// LevelOfStoredIndex returns the tree level of the hash stored at dense position p
// (layout: after leaf i, every subtree it completes, bottom-up; 2i-popcount(i) hashes precede leaf i).
func LevelOfStoredIndex(p int64) int {
	before := func(i int64) int64 {
		c := int64(0)
		for x := uint64(i); x != 0; x &= x - 1 {
			c++
		}
		return 2*i - c
	}
	if p < 0 || p >= 1<<62 {
		panic("merkleref: stored index out of the supported range")
	}
	lo, hi := int64(0), p // largest i with before(i) <= p
	for lo < hi {
		mid := lo + (hi-lo+1)/2
		if before(mid) <= p {
			lo = mid
		} else {
			hi = mid - 1
		}
	}
	return int(p - before(lo))
}

// StoredAt is the stored hash at dense position p of the uniform log.
func (u *Uniform) StoredAt(p int64) Hash {
	return u.MTHSize(int64(1) << uint(LevelOfStoredIndex(p)))
}
