// Package noteref restates, from the package comment of sumdb/note and the
// documentation of Open, what opening a signed note must do. It does not import
// golang.org/x/mod.
package noteref

import (
	"bytes"
	"encoding/base64"
	"encoding/binary"
	"strings"
	"unicode"
	"unicode/utf8"
)

// Outcome classes of Open.
const (
	OK         = "ok"
	Malformed  = "malformed"
	InvalidSig = "invalid-signature"
	Unverified = "unverified"
	Ambiguous  = "ambiguous-key"
	Mismatch   = "mismatched-verifier" // the collection handed back a verifier for another key
	LookupErr  = "lookup-error"        // the collection reported an error of its own
)

type Sig struct {
	Name   string
	Hash   uint32
	Base64 string
}

type Result struct {
	Class      string
	Text       string
	Sigs       []Sig
	Unverified []Sig
	BadName    string // for InvalidSig
	BadHash    uint32
}

// Lookup describes the known-verifier set: how many verifiers are registered under
// (name, hash), and, when exactly one is, its verification function. A count of -1 says that the
// collection answers with a verifier whose name or key hash differs from the ones asked for (which
// Open must not use: a signature is only ever checked by its own key's verifier), -2 that it answers
// with an error other than "unknown key" (which Open returns).
type Lookup func(name string, hash uint32) (count int, verify func(text, sig []byte) bool)

func ValidName(name string) bool {
	if name == "" || !utf8.ValidString(name) || strings.Contains(name, "+") {
		return false
	}
	for _, r := range name {
		if unicode.IsSpace(r) {
			return false
		}
	}
	return true
}

// ValidText reports whether s can be the text of a note: valid UTF-8, no ASCII
// control characters other than newline, ending in newline.
func ValidText(s string) bool {
	if !utf8.ValidString(s) || !strings.HasSuffix(s, "\n") {
		return false
	}
	for _, r := range s {
		if r < 0x20 && r != '\n' {
			return false
		}
	}
	return true
}

// Open is the documented behaviour of note.Open.
func Open(msg []byte, known Lookup) Result {
	if !utf8.Valid(msg) {
		return Result{Class: Malformed}
	}
	for _, r := range string(msg) {
		if r < 0x20 && r != '\n' {
			return Result{Class: Malformed}
		}
	}
	// the signature block is what follows the last blank line
	cut := bytes.LastIndex(msg, []byte("\n\n"))
	if cut < 0 {
		return Result{Class: Malformed}
	}
	text := msg[:cut+1]
	block := string(msg[cut+2:])
	if block == "" || !strings.HasSuffix(block, "\n") {
		return Result{Class: Malformed}
	}
	res := Result{Text: string(text)}
	lines := strings.Split(strings.TrimSuffix(block, "\n"), "\n")
	seenKnown := map[Sig]bool{} // keyed by name+hash only
	seenLine := map[string]bool{}
	for i, line := range lines {
		rest, ok := strings.CutPrefix(line, "— ")
		if !ok {
			return Result{Class: Malformed, Text: res.Text}
		}
		name, b64, _ := strings.Cut(rest, " ")
		raw, err := base64.StdEncoding.DecodeString(b64)
		if err != nil || !ValidName(name) || b64 == "" || len(raw) < 5 {
			return Result{Class: Malformed, Text: res.Text}
		}
		if i >= 100 {
			return Result{Class: Malformed, Text: res.Text} // more than 100 signature lines
		}
		hash := binary.BigEndian.Uint32(raw[:4])
		count, verify := known(name, hash)
		switch {
		case count == -1:
			return Result{Class: Mismatch, Text: res.Text}
		case count == -2:
			return Result{Class: LookupErr, Text: res.Text}
		case count == 0:
			if !seenLine[rest] {
				seenLine[rest] = true
				res.Unverified = append(res.Unverified, Sig{name, hash, b64})
			}
		case count > 1:
			return Result{Class: Ambiguous, Text: res.Text}
		default:
			k := Sig{Name: name, Hash: hash}
			if seenKnown[k] {
				continue // later signature lines of an already accepted key are ignored
			}
			seenKnown[k] = true
			if !verify(text, raw[4:]) {
				return Result{Class: InvalidSig, Text: res.Text, BadName: name, BadHash: hash}
			}
			res.Sigs = append(res.Sigs, Sig{name, hash, b64})
		}
	}
	if len(res.Sigs) == 0 {
		res.Class = Unverified
		return res
	}
	res.Class = OK
	return res
}
