// Package semverref is an independent model of the semver package's
// documented behaviour. It does not import golang.org/x/mod.
//
// Validity is one anchored regular expression transcribed from the package
// comment; precedence follows SemVer 2.0.0 section 11 with math/big numbers.
package semverref

import (
	"math/big"
	"regexp"
	"strings"
)

const (
	num   = `(?:0|[1-9][0-9]*)`
	preID = `(?:0|[1-9][0-9]*|[0-9]*[A-Za-z-][0-9A-Za-z-]*)`
	bldID = `[0-9A-Za-z-]+`
)

var re = regexp.MustCompile(`\Av(` + num + `)(?:\.(` + num + `)(?:\.(` + num + `)(-` + preID + `(?:\.` + preID + `)*)?(\+` + bldID + `(?:\.` + bldID + `)*)?)?)?\z`)

// V is a parsed version.
type V struct {
	Major, Minor, Patch string // decimal strings; Minor/Patch "" when shortened
	Pre, Build          string // with leading - / +
}

// Parse reports the parts of v, or ok=false.
func Parse(v string) (V, bool) {
	m := re.FindStringSubmatch(v)
	if m == nil {
		return V{}, false
	}
	return V{Major: m[1], Minor: m[2], Patch: m[3], Pre: m[4], Build: m[5]}, true
}

func IsValid(v string) bool { _, ok := Parse(v); return ok }

func orZero(s string) string {
	if s == "" {
		return "0"
	}
	return s
}

func Canonical(v string) string {
	p, ok := Parse(v)
	if !ok {
		return ""
	}
	return "v" + p.Major + "." + orZero(p.Minor) + "." + orZero(p.Patch) + p.Pre
}

func Major(v string) string {
	p, ok := Parse(v)
	if !ok {
		return ""
	}
	return "v" + p.Major
}

func MajorMinor(v string) string {
	p, ok := Parse(v)
	if !ok {
		return ""
	}
	return "v" + p.Major + "." + orZero(p.Minor)
}

func Prerelease(v string) string { p, _ := Parse(v); return p.Pre }
func Build(v string) string      { p, _ := Parse(v); return p.Build }

func bigOf(s string) *big.Int {
	n, ok := new(big.Int).SetString(orZero(s), 10)
	if !ok {
		panic("semverref: not a number: " + s)
	}
	return n
}

func allDigits(s string) bool {
	for _, c := range s {
		if c < '0' || c > '9' {
			return false
		}
	}
	return s != ""
}

// Compare is SemVer 2.0.0 precedence; invalid == invalid < valid.
func Compare(v, w string) int {
	pv, ok1 := Parse(v)
	pw, ok2 := Parse(w)
	switch {
	case !ok1 && !ok2:
		return 0
	case !ok1:
		return -1
	case !ok2:
		return +1
	}
	for _, pair := range [][2]string{{pv.Major, pw.Major}, {pv.Minor, pw.Minor}, {pv.Patch, pw.Patch}} {
		if c := bigOf(pair[0]).Cmp(bigOf(pair[1])); c != 0 {
			return c
		}
	}
	return comparePre(pv.Pre, pw.Pre)
}

func comparePre(x, y string) int {
	if x == "" && y == "" {
		return 0
	}
	if x == "" {
		return +1 // a release has higher precedence than a prerelease
	}
	if y == "" {
		return -1
	}
	xs := strings.Split(x[1:], ".")
	ys := strings.Split(y[1:], ".")
	for i := 0; i < len(xs) && i < len(ys); i++ {
		a, b := xs[i], ys[i]
		an, bn := allDigits(a), allDigits(b)
		switch {
		case an && bn:
			if c := bigOf(a).Cmp(bigOf(b)); c != 0 {
				return c
			}
		case an:
			return -1
		case bn:
			return +1
		default:
			if c := strings.Compare(a, b); c != 0 {
				return c
			}
		}
	}
	switch {
	case len(xs) < len(ys):
		return -1
	case len(xs) > len(ys):
		return +1
	}
	return 0
}
