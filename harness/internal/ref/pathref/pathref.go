// Package pathref is an independent, declarative statement of the module /
// import / file path rules documented in golang.org/x/mod/module. It does not
// import that package.
package pathref

import (
	"path"
	"regexp"
	"strings"
	"unicode"
	"unicode/utf8"

	"verif/harness/internal/ref/semverref"
)

type Kind int

const (
	Module Kind = iota
	Import
	File
)

func (k Kind) String() string { return [...]string{"module", "import", "file"}[k] }

const (
	lowerDigits  = "abcdefghijklmnopqrstuvwxyz0123456789"
	upper        = "ABCDEFGHIJKLMNOPQRSTUVWXYZ"
	modPunct     = "-._~"
	filePunctAdd = "!#$%&()+,=@[]^{} " // allowed in file names in addition to the import set
)

func charOK(r rune, k Kind) bool {
	if r < utf8.RuneSelf {
		s := string(r)
		if strings.Contains(lowerDigits, s) || strings.Contains(upper, s) || strings.Contains(modPunct, s) {
			return true
		}
		switch k {
		case Import:
			return r == '+'
		case File:
			return strings.Contains(filePunctAdd, s)
		}
		return false
	}
	return k == File && unicode.IsLetter(r)
}

var reserved = map[string]bool{}

func init() {
	for _, n := range []string{"CON", "PRN", "AUX", "NUL"} {
		reserved[n] = true
	}
	for _, d := range "123456789" {
		reserved["COM"+string(d)] = true
		reserved["LPT"+string(d)] = true
	}
}

func asciiUpper(s string) string {
	b := []byte(s)
	for i, c := range b {
		if c >= 'a' && c <= 'z' {
			b[i] = c - 'a' + 'A'
		}
	}
	return string(b)
}

var shortName = regexp.MustCompile(`~[0-9]+\z`)

// ElemOK states the rules for one path element.
func ElemOK(e string, k Kind) bool {
	if e == "" {
		return false
	}
	if strings.Trim(e, ".") == "" { // ".", "..", "..." ...
		return false
	}
	if k == Module && strings.HasPrefix(e, ".") {
		return false
	}
	if strings.HasSuffix(e, ".") {
		return false
	}
	for _, r := range e {
		if !charOK(r, k) {
			return false
		}
	}
	short, _, _ := strings.Cut(e, ".")
	if reserved[asciiUpper(short)] {
		return false
	}
	if k != File && shortName.MatchString(short) {
		return false
	}
	return true
}

// Valid states the rules for a whole path.
func Valid(p string, k Kind) bool {
	if !utf8.ValidString(p) || p == "" {
		return false
	}
	if k != File && strings.HasPrefix(p, "-") {
		return false
	}
	elems := strings.Split(p, "/")
	for _, e := range elems {
		if !ElemOK(e, k) {
			return false
		}
	}
	if k != Module {
		return true
	}
	first := elems[0]
	if !strings.Contains(first, ".") {
		return false
	}
	for _, r := range first {
		if !(strings.ContainsRune(lowerDigits, r) || r == '-' || r == '.') {
			return false
		}
	}
	_, _, ok, _ := Split(p)
	return ok
}

var (
	slashV = regexp.MustCompile(`\Av[0-9.]+\z`)
	goodN  = regexp.MustCompile(`\A[1-9][0-9]*\z`)
)

// Split is the documented SplitPathVersion. unspecified is set for the one
// shape the documentation does not settle (gopkg.in ".v0-unstable").
func Split(p string) (prefix, major string, ok bool, unspecified bool) {
	if strings.HasPrefix(p, "gopkg.in/") {
		body := strings.TrimSuffix(p, "-unstable")
		i := len(body)
		for i > 0 && body[i-1] >= '0' && body[i-1] <= '9' {
			i--
		}
		n := body[i:]
		if i < 2 || body[i-2:i] != ".v" {
			return p, "", false, false
		}
		unstable := strings.HasSuffix(p, "-unstable")
		if n == "" {
			return p, "", false, false // "All gopkg.in paths must end in vN for some N"
		}
		if n == "0" && unstable {
			return p, "", false, true
		}
		if n != "0" && !goodN.MatchString(n) {
			return p, "", false, false
		}
		return p[:i-2], p[i-2:], true, false
	}
	elems := strings.Split(p, "/")
	last := elems[len(elems)-1]
	if len(elems) < 2 || !slashV.MatchString(last) {
		return p, "", true, false
	}
	n := last[1:]
	if !goodN.MatchString(n) || n == "1" {
		return p, "", false, false
	}
	return p[:len(p)-len(last)-1], "/" + last, true, false
}

// MajorMatches states when semantic version v goes with the path suffix major.
func MajorMatches(v, major string) bool {
	mv := semverref.Major(v)
	switch {
	case major == "":
		return mv == "v0" || mv == "v1" || semverref.Build(v) == "+incompatible"
	case strings.HasPrefix(major, "/"):
		return mv == major[1:]
	case strings.HasPrefix(major, "."):
		m := strings.TrimSuffix(major[1:], "-unstable")
		if m == "v1" && strings.HasPrefix(v, "v0.0.0-") {
			return true
		}
		return mv == m
	}
	return false
}

// CheckOK states when module.Check(path, version) must succeed.
func CheckOK(p, v string) (ok bool, unspecified bool) {
	if !utf8.ValidString(p) {
		return false, false
	}
	_, major, sok, unspec := Split(p)
	if unspec {
		return false, true
	}
	if !Valid(p, Module) || !sok {
		return false, false
	}
	if !semverref.IsValid(v) {
		return false, false
	}
	return MajorMatches(v, major), false
}

// MatchPrefixPatterns is the documented prefix-glob definition.
func MatchPrefixPatterns(globs, target string) bool {
	telems := strings.Split(target, "/")
	for _, item := range strings.Split(globs, ",") {
		item = strings.TrimSuffix(item, "/")
		if item == "" {
			continue
		}
		k := strings.Count(item, "/")
		if len(telems) < k+1 {
			continue
		}
		if ok, _ := path.Match(item, strings.Join(telems[:k+1], "/")); ok {
			return true
		}
	}
	return false
}

// Escape is the documented !-escaping of an ASCII string without '!'.
func Escape(s string) (string, bool) {
	var b strings.Builder
	for _, r := range s {
		switch {
		case r == '!' || r >= utf8.RuneSelf:
			return "", false
		case r >= 'A' && r <= 'Z':
			b.WriteByte('!')
			b.WriteRune(r + 'a' - 'A')
		default:
			b.WriteRune(r)
		}
	}
	return b.String(), true
}

// VersionEscapable states which strings EscapeVersion accepts: a valid file
// name element without '!' (and, since the escaping is defined on ASCII only, without non-ASCII).
func VersionEscapable(v string) bool {
	if !utf8.ValidString(v) {
		return false
	}
	if !ElemOK(v, File) || strings.Contains(v, "!") {
		return false
	}
	for _, r := range v {
		if r >= utf8.RuneSelf {
			return false
		}
	}
	return true
}
