// Package zipref states, independently of golang.org/x/mod/zip, which members
// of a file list belong in a module zip and which entries of a zip archive are
// acceptable. It follows the package documentation of zip and the decision
// order the property anchors. It imports only pathref (itself independent).
package zipref

import (
	"path"
	"strings"

	"verif/harness/internal/ref/pathref"
)

const (
	MaxZipFile = 500 << 20
	MaxGoMod   = 16 << 20
	MaxLICENSE = 16 << 20
)

// Member describes one file given to the file check.
type Member struct {
	Path    string
	Regular bool
	Dir     bool
	Symlink bool
	Size    int64
}

type Class int

const (
	Valid Class = iota
	Omitted
	Invalid
)

func (c Class) String() string { return [...]string{"valid", "omitted", "invalid"}[c] }

// Vendored reports whether name (clean, relative, slash-separated) is in a vendored package.
// post124: the root go.mod declares go >= 1.24.
func Vendored(name string, post124 bool) bool {
	elems := strings.Split(name, "/")
	if post124 && name == "vendor/modules.txt" {
		return true
	}
	if len(elems) >= 2 && elems[0] == "vendor" {
		return len(elems) >= 3
	}
	for k := 1; k < len(elems)-1; k++ {
		if elems[k] == "vendor" {
			if post124 {
				return len(elems)-1-k >= 2
			}
			return true // the pre-1.24 behaviour: anything below a nested vendor directory
		}
	}
	return false
}

// folder detects case-fold collisions and file/directory clashes with pairwise EqualFold.
type folder struct {
	seen []struct {
		p   string
		dir bool
	}
}

func (f *folder) check(p string, isDir bool) bool {
	found := false
	for _, s := range f.seen {
		if strings.EqualFold(s.p, p) {
			found = true
			if s.p != p || s.dir != isDir || !isDir {
				return false
			}
			break
		}
	}
	if !found {
		f.seen = append(f.seen, struct {
			p   string
			dir bool
		}{p, isDir})
	}
	if parent := path.Dir(p); parent != "." {
		return f.check(parent, true)
	}
	return true
}

// Report is the expected result of the file check.
type Report struct {
	Classes      []Class  // per member, in order
	Valid        []string // paths, in order
	Omitted      []string // reported paths (first error per path), in order
	Invalid      []string
	ValidSize    int64 // total size of the valid members
	CountedSize  int64 // total size of everything that reached the size stage
	SizeExceeded bool  // the running total exceeded the limit at some point (as the members were scanned)
}

// CheckFiles classifies every member.
func CheckFiles(ms []Member, post124 bool) Report {
	// directories (as written, with trailing slash) that contain a regular file named go.mod in any case
	nested := map[string]bool{}
	for _, m := range ms {
		dir, base := path.Split(m.Path)
		if strings.EqualFold(base, "go.mod") && m.Regular {
			nested[dir] = true
		}
	}
	inNested := func(p string) bool {
		// some proper directory prefix of p (other than the root) holds a go.mod
		for i := 0; i < len(p); i++ {
			if p[i] == '/' && nested[p[:i+1]] {
				return true
			}
		}
		return false
	}
	var r Report
	reported := map[string]bool{}
	var f folder
	report := func(p string, c Class) {
		if reported[p] {
			return
		}
		reported[p] = true
		if c == Omitted {
			r.Omitted = append(r.Omitted, p)
		} else {
			r.Invalid = append(r.Invalid, p)
		}
	}
	remaining := int64(MaxZipFile)
	for _, m := range ms {
		p := m.Path
		c := Valid
		switch {
		case p != path.Clean(p):
			c = Invalid
		case path.IsAbs(p):
			c = Invalid
		case Vendored(p, post124):
			c = Omitted
		case inNested(p):
			c = Omitted
		case p == ".hg_archival.txt":
			c = Omitted
		case !pathref.Valid(p, pathref.File):
			c = Invalid
		case strings.ToLower(p) == "go.mod" && p != "go.mod":
			c = Invalid
		case !f.check(p, m.Dir):
			c = Invalid
		case m.Symlink:
			c = Omitted
		case !m.Regular:
			c = Omitted
		default:
			r.CountedSize = satAdd(r.CountedSize, m.Size)
			if m.Size >= 0 && m.Size <= remaining {
				remaining -= m.Size
			} else {
				r.SizeExceeded = true
			}
			if p == "go.mod" && m.Size > MaxGoMod || p == "LICENSE" && m.Size > MaxLICENSE {
				c = Invalid
			}
		}
		r.Classes = append(r.Classes, c)
		if c == Valid {
			r.Valid = append(r.Valid, p)
			r.ValidSize = satAdd(r.ValidSize, m.Size)
		} else {
			report(p, c)
		}
	}
	return r
}

// ZipEntry describes one entry of a zip archive.
type ZipEntry struct {
	Name string
	Size int64 // declared uncompressed size
}

type ZipReport struct {
	Valid        []string // full entry names
	Invalid      []string // full entry names, in order (not de-duplicated)
	SizeExceeded bool
	Files        []string // names (without prefix) of the file entries that passed, in order
}

// CheckZip classifies the entries of an archive for the module prefix "path@version/".
func CheckZip(prefix string, es []ZipEntry) ZipReport {
	var r ZipReport
	var f folder
	var total int64
	for _, e := range es {
		bad := func() { r.Invalid = append(r.Invalid, e.Name) }
		if !strings.HasPrefix(e.Name, prefix) {
			bad()
			continue
		}
		name := e.Name[len(prefix):]
		if name == "" {
			continue
		}
		isDir := strings.HasSuffix(name, "/")
		if isDir {
			name = name[:len(name)-1]
		}
		if path.Clean(name) != name || !pathref.Valid(name, pathref.File) || !f.check(name, isDir) {
			bad()
			continue
		}
		if isDir {
			continue
		}
		if strings.EqualFold(path.Base(name), "go.mod") && name != "go.mod" {
			bad() // nested, or wrong case at the root
			continue
		}
		if e.Size >= 0 && MaxZipFile-total >= e.Size {
			total += e.Size
		} else {
			r.SizeExceeded = true
		}
		if name == "go.mod" && e.Size > MaxGoMod || name == "LICENSE" && e.Size > MaxLICENSE {
			bad()
			continue
		}
		r.Valid = append(r.Valid, e.Name)
		r.Files = append(r.Files, name)
	}
	return r
}

// satAdd adds non-negative sizes, saturating at the largest int64 (totals are only compared with limits).
func satAdd(a, b int64) int64 {
	if b < 0 {
		return a
	}
	if a > 1<<63-1-b {
		return 1<<63 - 1
	}
	return a + b
}
