// Package zipgen generates file lists, directory trees and raw archives for
// the module-zip properties (C05, C12, C17, C19).
package zipgen

import (
	"bytes"
	"errors"
	"io"
	"io/fs"
	"os"
	"path"
	"strings"
	"time"

	"pgregory.net/rapid"

	"verif/harness/internal/gen"
	"verif/harness/internal/ref/zipref"
)

// Entry is one member of a file list.
type Entry struct {
	Name    string
	Mode    string // "file", "symlink", "dir", "device", "pipe", "irregular", "socket", "chardev"
	Content []byte
	Size    int64 // reported size; -1 = len(Content)
	Read    string `json:",omitempty"` // how Open's reader delivers the content: "" at once; "eofdata" the last bytes together with io.EOF; "byte" one byte per call; "chunk" 7 bytes per call, the last with io.EOF; "errmid" half of the content, then an I/O error; "erropen" Open fails
}

func (e Entry) ReportedSize() int64 {
	if e.Size >= 0 {
		return e.Size
	}
	return int64(len(e.Content))
}

func (e Entry) FileMode() os.FileMode {
	switch e.Mode {
	case "symlink":
		return os.ModeSymlink | 0o777
	case "dir":
		return os.ModeDir | 0o755
	case "device":
		return os.ModeDevice | 0o644
	case "pipe":
		return os.ModeNamedPipe | 0o644
	case "irregular":
		return os.ModeIrregular | 0o644
	case "socket":
		return os.ModeSocket | 0o644
	case "chardev":
		return os.ModeDevice | os.ModeCharDevice | 0o644
	}
	return 0o644
}

// Member converts the entry for the reference classifier.
func (e Entry) Member() zipref.Member {
	return zipref.Member{Path: e.Name, Regular: e.Mode == "file", Dir: e.Mode == "dir", Symlink: e.Mode == "symlink", Size: e.ReportedSize()}
}

// GoModKind describes the root go.mod of a list.
type GoModKind struct {
	Name    string
	Content string
	Post124 bool // declares go >= 1.24 in a way the lax parser can read
}

var GoModKinds = []GoModKind{
	{"go1.23", "module example.com/m\n\ngo 1.23\n", false},
	{"go1.23.9", "module example.com/m\ngo 1.23.9\n", false},
	{"go1.24", "module example.com/m\n\ngo 1.24\n", true},
	{"go1.24.1", "module example.com/m\ngo 1.24.1\n", true},
	{"go1.25rc1", "module example.com/m\ngo 1.25rc1\n", true},
	{"go1.100", "module example.com/m\ngo 1.100\n", true},
	{"go1.9", "module example.com/m\ngo 1.9\n", false},
	{"nogo", "module example.com/m\n", false},
	{"unknown-directive+1.24", "module example.com/m\nfrobnicate x y\ngo 1.24\nfuture (\n\ta b\n)\n", true},
	{"unknown-directive+1.21", "module example.com/m\nfrobnicate x y\ngo 1.21\n", false},
	{"syntax-error", "module example.com/m\nrequire (\n", false},
	{"syntax-error-after-go", "go 1.24\nmodule \"unterminated\n", false},
	{"invalid-go-version", "module example.com/m\ngo one.two\n", false},
	{"go-in-block-comment", "module example.com/m\n// go 1.24\n", false},
	{"empty", "", false},
}

type ListCase struct {
	Path, Version string
	GoMod         int // index into GoModKinds, -1 = no root go.mod
	Entries       []Entry
}

// Post124 reports whether the list's root go.mod (if a regular file) declares go >= 1.24.
func (c ListCase) Post124() bool {
	post := false
	for _, e := range c.Entries {
		if e.Name == "go.mod" && e.Mode == "file" && c.GoMod >= 0 && c.GoMod < len(GoModKinds) {
			post = GoModKinds[c.GoMod].Post124
		}
	}
	return post
}

var dirPool = []string{"", "", "", "zoo/", "a/", "a/b/", "a/b/c/", "vendor/", "vendor/x/", "vendor/x/y/", "pkg/vendor/", "pkg/vendor/z/", "pkg/vendor/z/w/", "vendor/vendor/", "sub/", "sub/deep/", "sub/vendor/", "A/", "a/B/", "Sub/", "é/", "ﬀ/", "ff/", "K/", "k/", "\u212a/", "\u212a/sub/", "\u017f/", "s/", "\u212b/", "\u00e5/", "a/\u212a/", "a/k/", "internal/", ".git/", "cmd/tool/", "testdata/", "con/", "a.b/", "..data/", "..2024_01_01/", "com1.conf.d/", "sub/..inner/"}
var filePool = []string{"data\u0663.txt", "v\uff12.go", "zed.go", "fizz.txt", "x.go", "y.go", "go.mod", "go.mod", "GO.MOD", "Go.Mod", "go.MOD", "LICENSE", "license", "License", "README.md", "modules.txt", "vendor.go", "vendor", ".hg_archival.txt", "aux.txt", "NUL", "com1.go", "a~1", "é.go", "É.go", "X.GO", "x.GO", "ß", "ss", "\u212a", "k", "K", "\u017f", "s", "\u212b", "\u00e5", "\u1e9e", "straße.go", "STRASSE.go", "σ.txt", "ς.txt", "Σ.txt", "a b.txt", "a\tb", "trailing.", ".hidden", "..", "...", "f|g", "f?g", "f*g", "weird[1].go", "go.mod.bak", "x", "z", ".git", ".hg", ".svn", ".bzr", ".gitignore", "cargo.mod", "algo.mod", "x.GO.MOD", "notgo.mod", "go.mod.go.mod", "LICENSE.txt", "MYLICENSE",
	// names that begin with dots without being dot or dot-dot; reserved device names with several suffixes
	"..keep", "..data", "...x", ".a.b", "aux.tar.gz", "NUL.pb.go", "lpt9.a.b.c", "com9", "LPT9.txt"}

// The "mild" pools only contain names that are valid and do not collide with each other under
// case folding, so that lists built from them usually pass the check while still exercising
// the omission rules (vendor variants, nested modules, VCS files, irregular modes).
var mildDirPool = []string{"", "", "", "a/", "a/b/", "a/b/c/", "vendor/", "vendor/x/", "vendor/x/y/", "pkg/vendor/", "pkg/vendor/z/", "pkg/vendor/z/w/", "vendor/vendor/", "sub/", "sub/deep/", "sub/vendor/", "sub/vendor/q/", "internal/", "cmd/tool/", "é/", "testdata/", ".git/", "cmd/generate/", "cmd/gen/", "docs/", "doc/", "doc/s/", "internal/xy/", "internal/x/", "..data/", "..2024_01_01/", "sub/..inner/"}
var mildFilePool = []string{"x.go", "y.go", "go.mod", "LICENSE", "README.md", "modules.txt", "vendor.go", "vendor", ".hg_archival.txt", "é.go", "a b.txt", ".hidden", "weird[1].go", "z", "go.mod.bak", "main_test.go", ".git", ".hg", ".gitignore", "cargo.mod", "algo.mod", "MYLICENSE", "..keep", "...x", ".a.b"}

var uncleanPool = []string{"a//b.go", "./x.go", "a/../b.go", "a/", "/abs/x.go", "", ".", "a/./b", "../up.go", "//", "a/b/..", "/",
	// unclean spellings of go.mod files: invalid themselves, and no reason to treat their directory as a module
	"sub//go.mod", "sub/./go.mod", "./go.mod", "other/../sub/GO.MOD", "a/b/../go.mod", "a//go.mod", "pkg/./go.mod"}
var modIDs = [][2]string{
	{"example.com/m", "v1.0.0"}, {"example.com/m", "v0.0.0-20200101000000-abcdefabcdef"}, {"example.com/m/v2", "v2.1.0"}, {"gopkg.in/yaml.v2", "v2.4.0"},
	{"example.com/m", "v2.0.0+incompatible"}, {"github.com/Azure/Go-Sdk", "v1.2.3-beta.1"}, {"example.com/m", "v1.0.0-pre"},
}
var badModIDs = [][2]string{
	{"example.com/m", "v1"}, {"example.com/m", "v1.0.0+meta"}, {"example.com/m", "v2.0.0"}, {"example.com/m/v2", "v1.0.0"}, {"Example.com/m", "v1.0.0"},
	{"example.com/m", ""}, {"m", "v1.0.0"}, {"example.com/m/v1", "v1.0.0"}, {"example.com/m", "master"}, {"example.com/m@v1", "v1.0.0"},
}

func pick[T any](t *rapid.T, l []T, label string) T { return l[gen.Uniform(t, len(l), label)] }

func genContent(t *rapid.T) []byte {
	switch rapid.IntRange(0, 4).Draw(t, "ck") {
	case 0:
		return nil
	case 1:
		return []byte("package p\n")
	}
	return rapid.SliceOfN(rapid.Byte(), 0, 30).Draw(t, "content")
}

// GenList draws a module id and a file list. hostility: 0 = only clean regular files (for real trees), 1 = everything.
func GenList(t *rapid.T, hostile bool) ListCase {
	c := ListCase{GoMod: -1}
	id := pick(t, modIDs, "modid")
	if hostile && gen.Chance(t, 10, "badid") {
		id = pick(t, badModIDs, "badmodid")
	}
	c.Path, c.Version = id[0], id[1]
	if gen.Chance(t, 80, "hasgomod") {
		c.GoMod = gen.Uniform(t, len(GoModKinds), "gomodkind")
	}
	mild := !hostile || rapid.Bool().Draw(t, "mild")
	dirs, names := dirPool, filePool
	if mild {
		dirs, names = mildDirPool, mildFilePool
	}
	n := rapid.IntRange(0, 25).Draw(t, "nentries")
	if rapid.Bool().Draw(t, "few") {
		n = rapid.IntRange(0, 8).Draw(t, "nentries2")
	}
	for i := 0; i < n; i++ {
		var e Entry
		e.Mode, e.Size = "file", -1
		if gen.Chance(t, 12, "oddreader") {
			e.Read = []string{"eofdata", "byte", "chunk"}[gen.Uniform(t, 3, "readhow")]
		}
		switch k := rapid.IntRange(0, 99).Draw(t, "nk"); {
		case hostile && !mild && k < 6:
			e.Name = pick(t, uncleanPool, "unclean")
		case hostile && !mild && k < 10 && len(c.Entries) > 0:
			// duplicate or case variant of an earlier entry
			pe := c.Entries[gen.Uniform(t, len(c.Entries), "dupof")]
			prev := pe.Name
			switch rapid.IntRange(0, 3).Draw(t, "dupkind") {
			case 0:
				c.Entries = append(c.Entries, pe) // exact duplicate, same content
				continue
			case 1:
				e.Name = strings.ToUpper(prev)
			case 3:
				// the case of exactly one ASCII letter differs; the letters at the ends of the alphabet are preferred
				// when the name has them (range tests written with < where <= is meant lose exactly those)
				var all, edge []int
				for i := 0; i < len(prev); i++ {
					if ch := prev[i] | 0x20; 'a' <= ch && ch <= 'z' {
						all = append(all, i)
						if ch == 'a' || ch == 'z' {
							edge = append(edge, i)
						}
					}
				}
				if len(all) == 0 {
					e.Name = strings.ToUpper(prev)
					break
				}
				at := all[gen.Uniform(t, len(all), "flipat")]
				if len(edge) > 0 && gen.Chance(t, 60, "flipedge") {
					at = edge[gen.Uniform(t, len(edge), "flipedgeat")]
				}
				b := []byte(prev)
				b[at] ^= 0x20
				e.Name = string(b)
			default:
				e.Name = prev + "/child.go" // an earlier file used as a directory
			}
		default:
			e.Name = pick(t, dirs, "dir") + pick(t, names, "file")
			if mild {
				// no duplicates and no file used as a directory in mild lists
				clash := false
				for _, o := range c.Entries {
					if o.Name == e.Name || strings.HasPrefix(o.Name, e.Name+"/") || strings.HasPrefix(e.Name, o.Name+"/") {
						clash = true
					}
				}
				if clash {
					continue
				}
			}
		}
		if hostile {
			switch m := rapid.IntRange(0, 99).Draw(t, "mode"); {
			case m < 5:
				e.Mode = "symlink"
			case m < 9:
				e.Mode = "dir"
				e.Name = strings.TrimSuffix(e.Name, "/")
			case m < 11:
				e.Mode = "device"
			case m < 13:
				e.Mode = "pipe"
			case m < 15:
				e.Mode = []string{"irregular", "socket", "chardev"}[gen.Uniform(t, 3, "oddmode")]
			}
		}
		if e.Mode == "file" {
			e.Content = genContent(t)
		}
		c.Entries = append(c.Entries, e)
	}
	if gen.Chance(t, 7, "siblingmodules") {
		// nested modules in sibling directories one of whose names is the other plus a character that sorts below
		// the slash (space ! # $ % & ( ) + , - .), or above it; files under both, in any order in the list
		d := pick(t, []string{"tools", "api", "sub/gen", "a/b"}, "sibdir")
		x := pick(t, []string{"-gen", ".v2", " x", "+1", ",a", "(1)", "!", "_x", "2", "~"}, "sibext")
		add := []Entry{
			{Name: d + "/go.mod", Mode: "file", Content: []byte("module example.com/nested\n"), Size: -1},
			{Name: d + x + "/go.mod", Mode: "file", Content: []byte("module example.com/nested2\n"), Size: -1},
			{Name: d + "/tool.go", Mode: "file", Content: []byte("package tool\n"), Size: -1},
			{Name: d + "/cmd/x/main.go", Mode: "file", Content: []byte("package main\n"), Size: -1},
			{Name: d + x + "/gen.go", Mode: "file", Content: []byte("package gen\n"), Size: -1},
		}
		if rapid.Bool().Draw(t, "sibonlyone") {
			add = append(add[:1:1], add[2:]...) // only the shorter name is a module: the longer one's files stay in
		}
		for _, a := range add {
			dup := false
			for _, e := range c.Entries {
				if strings.EqualFold(e.Name, a.Name) || strings.HasPrefix(strings.ToLower(a.Name), strings.ToLower(e.Name)+"/") {
					dup = true
				}
			}
			if !dup {
				at := gen.Uniform(t, len(c.Entries)+1, "sibat")
				c.Entries = append(c.Entries[:at:at], append([]Entry{a}, c.Entries[at:]...)...)
			}
		}
	}
	if c.GoMod >= 0 {
		gm := Entry{Name: "go.mod", Mode: "file", Content: []byte(GoModKinds[c.GoMod].Content), Size: -1}
		if gen.Chance(t, 10, "gomododdreader") {
			gm.Read = []string{"eofdata", "byte", "chunk"}[gen.Uniform(t, 3, "gomodreadhow")]
		}
		if hostile && gen.Chance(t, 4, "gomodsymlink") {
			gm.Mode, gm.Content = "symlink", nil
		}
		// the go.mod generated from filePool at the root would shadow this one: replace them
		var keep []Entry
		for _, e := range c.Entries {
			if e.Name == "go.mod" {
				continue
			}
			keep = append(keep, e)
		}
		pos := 0
		if len(keep) > 0 {
			pos = rapid.IntRange(0, len(keep)).Draw(t, "gomodpos")
		}
		c.Entries = append(keep[:pos:pos], append([]Entry{gm}, keep[pos:]...)...)
	} else {
		var keep []Entry
		for _, e := range c.Entries {
			if e.Name != "go.mod" {
				keep = append(keep, e)
			}
		}
		c.Entries = keep
	}
	// two files of the same length and the same CRC-32 with different contents: whoever identifies files by a
	// weak fingerprint confuses them
	if gen.Chance(t, 6, "crctwins") {
		a := []byte("package twins\n\nconst N = " + []string{"1", "22", "333", "4444"}[gen.Uniform(t, 4, "twinn")] + "\n// pad pad\n")
		if b := gen.CRCTwin(a); b != nil {
			d1, d2 := "twins/", "twins/"
			if gen.Chance(t, 50, "twindirs") {
				d1, d2 = "a/", "sub/deep/"
			}
			c.Entries = append(c.Entries, Entry{Name: d1 + "one.go", Mode: "file", Content: a, Size: -1}, Entry{Name: d2 + "two.go", Mode: "file", Content: b, Size: -1})
		}
	}
	// lying sizes: only in ways that make the list fail the check (nothing large is ever written)
	if hostile && gen.Chance(t, 8, "bigsizes") {
		switch rapid.IntRange(0, 10).Draw(t, "bigkind") {
		case 10: // an oversized file that merely shares the name of a limited one, below the root
			c.Entries = append(c.Entries, Entry{Name: "third_party/lib/LICENSE", Mode: "file", Size: zipref.MaxLICENSE + 1}, Entry{Name: "docs/LICENSE.txt", Mode: "file", Size: zipref.MaxLICENSE + 1})
		case 8: // sizes whose sum wraps a signed 64-bit total
			c.Entries = append(c.Entries, Entry{Name: "wrap1.bin", Mode: "file", Size: 1 << 62}, Entry{Name: "wrap2.bin", Mode: "file", Size: 1 << 62})
		case 9:
			c.Entries = append(c.Entries, Entry{Name: "max.bin", Mode: "file", Size: 1<<63 - 1}, Entry{Name: "one.bin", Mode: "file", Size: 1 << 20}, Entry{Name: "two.bin", Mode: "file", Size: 1<<63 - 1})
		case 4: // exactly at the limits: still valid
			c.Entries = append(c.Entries, Entry{Name: "LICENSE", Mode: "file", Size: zipref.MaxLICENSE})
		case 5:
			for i := range c.Entries {
				if c.Entries[i].Name == "go.mod" && c.Entries[i].Mode == "file" {
					c.Entries[i].Size = zipref.MaxGoMod
				}
			}
		case 6: // total exactly at the limit
			c.Entries = append(c.Entries, Entry{Name: "half1.bin", Mode: "file", Size: zipref.MaxZipFile / 2}, Entry{Name: "half2.bin", Mode: "file", Size: zipref.MaxZipFile / 2})
		case 7: // total one byte over, through a vendored (omitted) file that must not count
			c.Entries = append(c.Entries, Entry{Name: "vendor/x/big.bin", Mode: "file", Size: zipref.MaxZipFile}, Entry{Name: "one.bin", Mode: "file", Size: 1 << 20})
		case 0:
			c.Entries = append(c.Entries, Entry{Name: "LICENSE", Mode: "file", Size: zipref.MaxLICENSE + 1})
		case 1:
			for i := range c.Entries {
				if c.Entries[i].Name == "go.mod" && c.Entries[i].Mode == "file" {
					c.Entries[i].Size = zipref.MaxGoMod + 1
				}
			}
		case 2:
			c.Entries = append(c.Entries, Entry{Name: "big1.bin", Mode: "file", Size: 300 << 20}, Entry{Name: "big2.bin", Mode: "file", Size: 300 << 20})
		case 3:
			c.Entries = append(c.Entries, Entry{Name: "huge.bin", Mode: "file", Size: zipref.MaxZipFile + 1})
		}
	}
	return c
}

// OKList bounds replayed cases.
func OKList(c ListCase) bool { return OKListBig(c, 4096) }

// OKListBig is OKList with a caller-chosen bound on content size.
func OKListBig(c ListCase, maxContent int) bool {
	if len(c.Entries) > 60 || c.GoMod < -1 || c.GoMod >= len(GoModKinds) {
		return false
	}
	for _, e := range c.Entries {
		switch e.Mode {
		case "file", "symlink", "dir", "device", "pipe", "irregular", "socket", "chardev":
		default:
			return false
		}
		if len(e.Name) > 400 || len(e.Content) > maxContent {
			return false
		}
		for _, el := range strings.Split(e.Name, "/") {
			if len(el) > 200 {
				return false
			}
		}
		if e.Size >= 0 && e.Size != int64(len(e.Content)) && e.Size < 1<<20 {
			return false // lying sizes are only allowed when they are huge (the list then fails the check)
		}
	}
	return true
}

// ---- zip.File implementation over entries

type File struct{ E Entry }

func (f File) Path() string { return f.E.Name }
func (f File) Lstat() (os.FileInfo, error) {
	return info{f.E}, nil
}
func (f File) Open() (io.ReadCloser, error) {
	if f.E.Mode != "file" {
		return nil, errors.New("not a regular file")
	}
	if f.E.Read == "erropen" {
		return nil, ErrIO
	}
	if f.E.Read != "" {
		return io.NopCloser(&oddReader{data: f.E.Content, how: f.E.Read, left: len(f.E.Content) / 2}), nil
	}
	return io.NopCloser(bytes.NewReader(f.E.Content)), nil
}

// oddReader delivers data in the ways the io.Reader contract allows and bytes.Reader never uses.
type oddReader struct {
	data []byte
	how  string
	left int // errmid: bytes still to deliver before the error
}

// ErrIO is what a failing file reports.
var ErrIO = errors.New("input/output error (injected)")

func (r *oddReader) Read(p []byte) (int, error) {
	if len(p) == 0 {
		return 0, nil
	}
	max := len(p)
	switch r.how {
	case "errmid":
		if r.left == 0 {
			return 0, ErrIO
		}
		if max > r.left {
			max = r.left
		}
		r.left -= max
		n := copy(p[:max], r.data)
		r.data = r.data[n:]
		return n, nil
	case "byte":
		max = 1
	case "chunk":
		if max > 7 {
			max = 7
		}
	}
	n := copy(p[:max], r.data)
	r.data = r.data[n:]
	if len(r.data) == 0 && (r.how == "eofdata" || r.how == "chunk" || n == 0) {
		return n, io.EOF
	}
	return n, nil
}

type info struct{ e Entry }

func (i info) Name() string       { return path.Base(i.e.Name) }
func (i info) Size() int64        { return i.e.ReportedSize() }
func (i info) Mode() fs.FileMode  { return i.e.FileMode() }
func (i info) ModTime() time.Time { return time.Time{} }
func (i info) IsDir() bool        { return i.e.Mode == "dir" }
func (i info) Sys() any           { return nil }

// AddScratchName inserts, anywhere in the list, a regular file named after another regular file of the list
// plus a work-file suffix: a name an extractor might pick for its own temporary file next to that entry.
func AddScratchName(t *rapid.T, c *ListCase) {
	var files []int
	for i, e := range c.Entries {
		if e.Mode == "file" && e.Name != "" && !strings.HasSuffix(e.Name, "/") {
			files = append(files, i)
		}
	}
	if len(files) == 0 {
		return
	}
	of := c.Entries[files[gen.Uniform(t, len(files), "scratchof")]]
	suf := []string{".tmp", "~", ".bak", ".part", ".partial", ".new", ".lock", ".0", ".download", "-tmp", ".swp", ".tmp/inner.go"}[gen.Uniform(t, 12, "scratchsuf")]
	ne := Entry{Name: of.Name + suf, Mode: "file", Content: []byte("scratch?\n"), Size: -1}
	for _, e := range c.Entries {
		if e.Name == ne.Name {
			return
		}
	}
	at := gen.Uniform(t, len(c.Entries)+1, "scratchat")
	c.Entries = append(c.Entries[:at:at], append([]Entry{ne}, c.Entries[at:]...)...)
}
