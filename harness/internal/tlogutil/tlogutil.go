// Package tlogutil connects the reference Merkle model to the tlog API.
package tlogutil

import (
	"fmt"
	"sync"

	"golang.org/x/mod/sumdb/tlog"

	"verif/harness/internal/ref/merkleref"
)

type entry struct {
	tree   *merkleref.Tree
	store  []merkleref.Hash
	counts []int // counts[n] = number of stored hashes for the first n records
}

var (
	mu      sync.Mutex
	entries = map[int64]*entry{}
)

func get(seed, n int64) *entry {
	e := entries[seed]
	if e == nil {
		e = &entry{tree: merkleref.NewTree(), counts: []int{0}}
		entries[seed] = e
	}
	for e.tree.Size() < n {
		i := e.tree.Size()
		e.tree.Append(merkleref.RecordData(seed, i))
		for _, c := range merkleref.LeafCoords(i) {
			e.store = append(e.store, e.tree.At(c))
		}
		e.counts = append(e.counts, len(e.store))
	}
	return e
}

// Tree returns the (shared, memoised) reference tree for seed, with at least n records.
// Not safe for concurrent mutation: property tests run one case at a time.
func Tree(seed, n int64) *merkleref.Tree {
	mu.Lock()
	defer mu.Unlock()
	return get(seed, n).tree
}

// Store returns the reference stored hashes (layout order) for the first n records of seed's tree.
func Store(seed, n int64) []merkleref.Hash {
	mu.Lock()
	defer mu.Unlock()
	e := get(seed, n)
	return e.store[:e.counts[n]:e.counts[n]]
}

// Reader serves stored hashes from a reference store by position.
func Reader(s []merkleref.Hash) tlog.HashReader {
	return tlog.HashReaderFunc(func(indexes []int64) ([]tlog.Hash, error) {
		out := make([]tlog.Hash, len(indexes))
		for i, x := range indexes {
			if x < 0 || x >= int64(len(s)) {
				return nil, fmt.Errorf("reference store: index %d out of range (len %d)", x, len(s))
			}
			out[i] = tlog.Hash(s[x])
		}
		return out, nil
	})
}
