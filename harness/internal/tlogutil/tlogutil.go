// Package tlogutil connects the reference Merkle model to the tlog API.
package tlogutil

import (
	"fmt"
	"sync"

	"golang.org/x/mod/sumdb/tlog"

	"verif/harness/internal/ref/merkleref"
)

type entry struct {
	tree   *merkleref.Tree
	store  []merkleref.Hash
	counts []int // counts[n] = number of stored hashes for the first n records
}

// Key identifies a reference log: records 0..P-1 come from seed A, the rest from seed B.
// A plain seeded log has A == B.
type Key struct {
	A, B, P int64
}

var (
	mu      sync.Mutex
	entries = map[Key]*entry{}
)

func get(k Key, n int64) *entry {
	e := entries[k]
	if e == nil {
		e = &entry{tree: merkleref.NewTree(), counts: []int{0}}
		entries[k] = e
	}
	for e.tree.Size() < n {
		i := e.tree.Size()
		if i < k.P {
			e.tree.Append(merkleref.RecordData(k.A, i))
		} else {
			e.tree.Append(merkleref.RecordData(k.B, i))
		}
		for _, c := range merkleref.LeafCoords(i) {
			e.store = append(e.store, e.tree.At(c))
		}
		e.counts = append(e.counts, len(e.store))
	}
	return e
}

// Tree returns the (shared, memoised) reference tree for seed, with at least n records.
func Tree(seed, n int64) *merkleref.Tree { return ForkedTree(Key{seed, seed, 0}, n) }

// ForkedTree returns the reference tree for a forked log.
func ForkedTree(k Key, n int64) *merkleref.Tree {
	mu.Lock()
	defer mu.Unlock()
	return get(k, n).tree
}

// Store returns the reference stored hashes (layout order) for the first n records of seed's tree.
func Store(seed, n int64) []merkleref.Hash { return ForkedStore(Key{seed, seed, 0}, n) }

// ForkedStore is Store for a forked log.
func ForkedStore(k Key, n int64) []merkleref.Hash {
	mu.Lock()
	defer mu.Unlock()
	e := get(k, n)
	return e.store[:e.counts[n]:e.counts[n]]
}

// Reader serves stored hashes from a reference store by position.
func Reader(s []merkleref.Hash) tlog.HashReader {
	return tlog.HashReaderFunc(func(indexes []int64) ([]tlog.Hash, error) {
		out := make([]tlog.Hash, len(indexes))
		for i, x := range indexes {
			if x < 0 || x >= int64(len(s)) {
				return nil, fmt.Errorf("reference store: index %d out of range (len %d)", x, len(s))
			}
			out[i] = tlog.Hash(s[x])
		}
		return out, nil
	})
}

// ViewReader serves stored hashes the way an in-memory or memory-mapped store does: a request for
// consecutive positions is answered with a view into the store itself, any other request with a fresh
// slice. Whoever writes into what ReadHashes returned writes into the store.
func ViewReader(s []tlog.Hash) tlog.HashReader {
	return tlog.HashReaderFunc(func(indexes []int64) ([]tlog.Hash, error) {
		consecutive := len(indexes) > 0
		for i, x := range indexes {
			if x < 0 || x >= int64(len(s)) {
				return nil, fmt.Errorf("store: index %d out of range (len %d)", x, len(s))
			}
			if x != indexes[0]+int64(i) {
				consecutive = false
			}
		}
		if consecutive {
			return s[indexes[0] : indexes[0]+int64(len(indexes))], nil
		}
		out := make([]tlog.Hash, len(indexes))
		for i, x := range indexes {
			out[i] = s[x]
		}
		return out, nil
	})
}
