module verif/harness

go 1.23

require (
	golang.org/x/mod v0.22.0
	pgregory.net/rapid v1.3.0
)

replace golang.org/x/mod => /repo
